import KrroodVerif.Props.C13
import KrroodVerif.Drive.SG
/-!
# C14 — asserting a relation has the same effect whatever objects lived and died before

`St.abs` reads a state of the model at the level of objects (labels), forgetting node indices, ids and the index
structures. `C14_model_eq_spec`: as long as no existence check is answered by a stale `_relation_index` entry and the
transitive inference meets no dead end (both impossible once the two quirks are off), every operation of the model
commutes with `abs`: the model IS the index-free specification `specStep`. `C14_fresh_equiv` follows: the
specification forgets a garbage prefix completely.
-/
namespace KrroodVerif.SG

variable {σ : Type}

/-- nothing went wrong that the two C14 quirks can cause -/
def OK (q : Quirks) (st : St σ) : Prop :=
  (q.staleRelIndex = false ∨ st.staleHit = false) ∧ (q.deadEndpointRaises = false ∨ st.deadHit = false)

theorem Inv.not_err_of_OK {q : Quirks} {st : St σ} (hI : Inv q st) (hok : OK q st) : st.err = false := by
  cases h : st.err with
  | false => rfl
  | true =>
    have := hI.errFlag h
    rcases hok.2 with h1 | h1
    · rw [this.2] at h1; cases h1
    · rw [this.1] at h1; cases h1

def liveW (h : Heap) (w : W) : Bool := h.isLive w.obj
def liveE (h : Heap) (e : Edge) : Bool := h.isLive e.src.obj && h.isLive e.tgt.obj

theorem abs_def (st : St σ) : st.abs =
    { h := st.h, reg := (st.g.nodes.filter (liveW st.h)).map W.toR,
      edges := (st.g.edges.filter (liveE st.h)).map Edge.toA } := rfl

/-- a change of the heap that keeps the set of live instances does not change what the graph shows -/
theorem abs_heap (st : St σ) (h' : Heap) (hl : h'.live = st.h.live) :
    ({ st with h := h' } : St σ).abs = { st.abs with h := h' } := by
  have h1 : liveW h' = liveW st.h := by funext w; simp [liveW, Heap.isLive, hl]
  have h2 : liveE h' = liveE st.h := by funext e; simp [liveE, Heap.isLive, hl]
  simp only [abs_def, h1, h2]

theorem toR_inj {q : Quirks} {st : St σ} (hI : Inv q st) {w1 w2 : W} (h1 : w1 ∈ st.g.nodes) (h2 : w2 ∈ st.g.nodes) :
    w1.toR = w2.toR ↔ w1 = w2 := by
  constructor
  · intro h
    have : w1.obj = w2.obj := by simpa [W.toR] using (congrArg R.obj h)
    exact hI.objInj w1 h1 w2 h2 this
  · rintro rfl; rfl

/-- `relation_exists` on two wrappers of the graph, read at the level of objects — exact when the index has no
stale entries, and in general whenever it answers no -/
theorem exists_of_edge {q : Quirks} {st : St σ} (hI : Inv q st) (f : Fld) (ws wt : W)
    (hs : ws ∈ st.g.nodes) (ht : wt ∈ st.g.nodes) (hls : st.h.isLive ws.obj = true)
    (hlt : st.h.isLive wt.obj = true) :
    (st.abs.exists_ f ws.toR wt.toR = true ↔ edgeExists st.g f ws wt = true) := by
  simp only [Spec.exists_, edgeExists, abs_def, List.any_eq_true, List.mem_map, List.mem_filter,
    Bool.and_eq_true, beq_iff_eq]
  constructor
  · rintro ⟨e', ⟨e, ⟨he, _⟩, rfl⟩, ⟨hf, hsrc⟩, htgt⟩
    have hn := hI.edgeNodes e he
    refine ⟨e, he, ⟨hf, ?_⟩, ?_⟩
    · exact (toR_inj hI hn.1 hs).1 hsrc
    · exact (toR_inj hI hn.2 ht).1 htgt
  · rintro ⟨e, he, ⟨hf, rfl⟩, rfl⟩
    exact ⟨e.toA, ⟨e, ⟨he, by simp [liveE, hls, hlt]⟩, rfl⟩, ⟨hf, rfl⟩, rfl⟩

theorem edgeExists_imp_relationExists {q : Quirks} {st : St σ} (hI : Inv q st) (f : Fld) (ws wt : W)
    (h : edgeExists st.g f ws wt = true) : relationExists st.g f ws wt = true := by
  simp only [edgeExists, List.any_eq_true, Bool.and_eq_true, beq_iff_eq] at h
  obtain ⟨e, he, ⟨rfl, rfl⟩, rfl⟩ := h
  simpa [relationExists] using hI.relOfEdge e he

theorem relationExists_imp_edgeExists {q : Quirks} {st : St σ} (hI : Inv q st) (hq : q.staleRelIndex = false)
    (f : Fld) (ws wt : W) (hs : ws ∈ st.g.nodes) (ht : wt ∈ st.g.nodes)
    (h : relationExists st.g f ws wt = true) : edgeExists st.g f ws wt = true := by
  simp only [relationExists, List.contains_iff_mem] at h
  obtain ⟨e, he, heq⟩ := hI.relExact hq _ h
  simp only [Prod.mk.injEq] at heq
  have hn := hI.edgeNodes e he
  have h1 := hI.idxInj ws hs e.src hn.1 heq.2.1
  have h2 := hI.idxInj wt ht e.tgt hn.2 heq.2.2
  simp only [edgeExists, List.any_eq_true, Bool.and_eq_true, beq_iff_eq]
  exact ⟨e, he, ⟨heq.1.symm, h1.symm⟩, h2.symm⟩


theorem foldl_removeNode_nodes_eq (q : Quirks) (a : Alloc σ) : ∀ (l : List W) (g : SG σ), g.nodes.Nodup →
    (l.foldl (SG.removeNode q a) g).nodes = g.nodes.filter (fun w => !l.contains w)
  | [], g, _ => by simp
  | x :: l, g, hn => by
    simp only [List.foldl_cons]
    rw [foldl_removeNode_nodes_eq q a l _ (by exact hn.erase x)]
    simp only [SG.removeNode]
    rw [hn.erase_eq_filter, List.filter_filter]
    apply List.filter_congr
    intro w _
    simp only [List.contains_cons, Bool.not_or, Bool.and_comm]
    cases h : (w == x) <;> simp [h, bne]

theorem foldl_removeNode_edges_eq (q : Quirks) (a : Alloc σ) : ∀ (l : List W) (g : SG σ),
    (l.foldl (SG.removeNode q a) g).edges =
      g.edges.filter (fun e => l.all (fun w => e.src.idx != w.idx && e.tgt.idx != w.idx))
  | [], g => by simp
  | x :: l, g => by
    simp only [List.foldl_cons]
    rw [foldl_removeNode_edges_eq q a l]
    simp only [SG.removeNode, List.filter_filter, List.all_cons]
    apply List.filter_congr
    intro e _
    rw [Bool.and_comm]

/-- `remove_dead_instances` is invisible at the level of objects -/
theorem abs_sweep {q : Quirks} {a : Alloc σ} {st : St σ} (hI : Inv q st) :
    ({ st with g := SG.sweep q a st.g st.h.isLive } : St σ).abs = st.abs := by
  have hdead : ∀ w, w ∈ sortByIdx (st.g.nodes.filter (fun w => !st.h.isLive w.obj)) ↔
      w ∈ st.g.nodes ∧ st.h.isLive w.obj = false := by
    intro w; rw [mem_sortByIdx, List.mem_filter]; simp
  simp only [abs_def, SG.sweep]
  rw [foldl_removeNode_nodes_eq q a _ _ hI.nodesNodup, foldl_removeNode_edges_eq, List.filter_filter,
    List.filter_filter]
  congr 2
  · apply List.filter_congr
    intro w hw
    cases hl : liveW st.h w with
    | false => simp
    | true =>
      simp only [Bool.true_and, Bool.not_eq_eq_eq_not, Bool.not_true]
      rw [← Bool.not_eq_true, List.contains_iff_mem, hdead]
      rintro ⟨_, h⟩
      simp [liveW, h] at hl
  · apply List.filter_congr
    intro e he
    cases hl : liveE st.h e with
    | false => simp
    | true =>
      simp only [Bool.true_and, List.all_eq_true, Bool.and_eq_true, bne_iff_ne, ne_eq]
      intro w hw
      rw [hdead] at hw
      have hn := hI.edgeNodes e he
      simp only [liveE, Bool.and_eq_true] at hl
      constructor
      · intro hc
        have := hI.idxInj _ hn.1 _ hw.1 hc
        rw [this, hw.2] at hl; exact absurd hl.1 (by simp)
      · intro hc
        have := hI.idxInj _ hn.2 _ hw.1 hc
        rw [this, hw.2] at hl; exact absurd hl.2 (by simp)

theorem kill_isLive (h : Heap) (D : List Obj) (o : Obj) :
    (h.kill D).isLive o = (h.isLive o && !D.contains o) := by
  simp only [Heap.isLive, Heap.kill, List.any_filter]
  rw [Bool.eq_iff_iff]
  simp only [List.any_eq_true, Bool.and_eq_true, beq_iff_eq, Bool.not_eq_eq_eq_not, Bool.not_true]
  constructor
  · rintro ⟨x, hx, h1, rfl⟩; exact ⟨⟨x, hx, rfl⟩, h1⟩
  · rintro ⟨⟨x, hx, rfl⟩, h1⟩; exact ⟨x, hx, h1, rfl⟩

/-- instances die: at the level of objects they leave the registry and the relations at once -/
theorem abs_kill (st : St σ) (D : List Obj) :
    ({ st with h := st.h.kill D } : St σ).abs = ({ st.abs with h := st.h.kill D } : Spec).prune := by
  simp only [abs_def, Spec.prune, List.filter_map, List.filter_filter]
  congr 2
  · apply List.filter_congr
    intro w _
    simp only [liveW, Function.comp, W.toR, kill_isLive]
    cases st.h.isLive w.obj <;> simp
  · apply List.filter_congr
    intro e _
    simp only [liveE, Function.comp, Edge.toA, W.toR, kill_isLive]
    cases st.h.isLive e.src.obj <;> cases st.h.isLive e.tgt.obj <;> simp


theorem abs_addNode {q : Quirks} {a : Alloc σ} {st : St σ} (hI : Inv q st) (x : HObj) (h' : Heap)
    (hlive : ∀ o, h'.isLive o = (st.h.isLive o || x.obj == o))
    (hnone : ∀ w ∈ st.g.nodes, w.obj ≠ x.obj) :
    ({ st with g := (SG.addNode a st.g x.obj x.cls x.pid).1, h := h' } : St σ).abs =
      { st.abs with reg := st.abs.reg ++ [⟨x.obj, x.cls⟩], h := h' } := by
  simp only [abs_def, SG.addNode, List.filter_append, List.map_append]
  congr 1
  · congr 1
    · congr 1
      apply List.filter_congr
      intro w hw
      have : (x.obj == w.obj) = false := by rw [beq_eq_false_iff_ne]; exact fun h => hnone w hw h.symm
      simp [liveW, hlive, this]
    · simp [liveW, hlive, W.toR]
  · congr 1
    apply List.filter_congr
    intro e he
    have hn := hI.edgeNodes e he
    have h1 : (x.obj == e.src.obj) = false := by rw [beq_eq_false_iff_ne]; exact fun h => hnone _ hn.1 h.symm
    have h2 : (x.obj == e.tgt.obj) = false := by rw [beq_eq_false_iff_ne]; exact fun h => hnone _ hn.2 h.symm
    simp [liveE, hlive, h1, h2]

theorem register_isLive (h : Heap) (o : Obj) : (h.register o).isLive = h.isLive := by
  funext o'; simp [Heap.isLive]

/-- `ensure_wrapped_instance` at the level of objects: the instance is known to the registry afterwards -/
theorem abs_ensure {q : Quirks} {a : Alloc σ} {st : St σ} (hI : Inv q st) (x : HObj) (hx : x ∈ st.h.live) :
    ({ st with g := (SG.ensure a st.g x).1, h := st.h.register x.obj } : St σ).abs = st.abs.ensure x := by
  unfold SG.ensure Spec.ensure
  cases hl : lookup st.g x.pid with
  | some w =>
    have hent := lookup_some hl
    have ho : w.obj = x.obj := hI.instOwner _ hent x hx rfl
    have hn := (hI.instNode _ hent (Or.inr ⟨x, hx, ho.symm⟩)).1
    have hany : st.abs.reg.any (fun r => r.obj == x.obj) = true := by
      simp only [abs_def, List.any_eq_true, List.mem_map, List.mem_filter, beq_iff_eq]
      exact ⟨w.toR, ⟨w, ⟨hn, by simp [liveW, ho, (isLive_iff _ _).2 ⟨x, hx, rfl⟩]⟩, rfl⟩, ho⟩
    simp only [hany, if_true]
    exact abs_heap st _ (by simp)
  | none =>
    have hnk := lookup_none hl
    have hnone : ∀ w ∈ st.g.nodes, w.obj ≠ x.obj := by
      intro w hw ho
      have := hI.instLive w hw x hx ho.symm
      exact hnk _ this (hI.nodeLive w hw x hx ho.symm).2.symm
    have hany : st.abs.reg.any (fun r => r.obj == x.obj) = false := by
      rw [List.any_eq_false]
      simp only [abs_def, List.mem_map, List.mem_filter, beq_iff_eq]
      rintro r ⟨w, ⟨hw, _⟩, rfl⟩
      exact hnone w hw
    simp only [hany]
    rw [abs_addNode hI x _ _ hnone]
    · rfl
    · intro o
      rw [register_isLive]
      cases h1 : st.h.isLive o with
      | true => simp
      | false =>
        simp only [Bool.false_or]
        symm; rw [beq_eq_false_iff_ne]
        intro he
        rw [← he, (isLive_iff _ _).2 ⟨x, hx, rfl⟩] at h1; cases h1

theorem abs_ensure2 {q : Quirks} {a : Alloc σ} (ha : a.Valid) {st : St σ} (hI : Inv q st) (xs xt : HObj)
    (hs : xs ∈ st.h.live) (ht : xt ∈ st.h.live) :
    (SG.ensure2 a st xs xt).1.abs = (st.abs.ensure xs).ensure xt := by
  have e1 := hI.ensure ha xs hs
  have a1 := abs_ensure (a := a) hI xs hs
  have a2 := abs_ensure (a := a) e1.1 xt (by simpa using ht)
  unfold SG.ensure2
  rw [← a1, ← a2]


/-- `get_instances_of_type` after the sweep = the census of the specification, as lists -/
theorem census_eq {q : Quirks} {S : Schema} {a : Alloc σ} {st : St σ} (hI : Inv q st) (T : Cls) :
    instancesOf q S (SG.sweep q a st.g st.h.isLive) T = st.abs.census q S T := by
  have hI' : Inv q { st with g := SG.sweep q a st.g st.h.isLive } := hI.sweep
  have hbc : (SG.sweep q a st.g st.h.isLive).byClass = (SG.sweep q a st.g st.h.isLive).nodes := hI'.byClassEq
  have hall : (SG.sweep q a st.g st.h.isLive).nodes.filter (liveW st.h) = (SG.sweep q a st.g st.h.isLive).nodes := by
    rw [List.filter_eq_self]
    intro w hw; exact ((mem_sweep_nodes hI w).1 hw).2
  have hreg : st.abs.reg = (SG.sweep q a st.g st.h.isLive).nodes.map W.toR := by
    have := congrArg Spec.reg (abs_sweep (a := a) hI)
    simp only [abs_def] at this
    rw [hall] at this
    simpa [abs_def] using this.symm
  unfold instancesOf Spec.census
  rw [hbc, hreg]
  congr 1
  funext c
  rw [List.filter_map, List.map_map]
  rfl

theorem OK_flags {q : Quirks} (st : St σ) (h' : Heap) (g' : SG σ) :
    OK q ({ st with h := h', g := g' } : St σ) ↔ OK q st := Iff.rfl

theorem abs_addEdge (st : St σ) (f : Fld) (ws wt : W) (inf : Bool) (hls : st.h.isLive ws.obj = true)
    (hlt : st.h.isLive wt.obj = true) :
    ({ st with g := addEdge st.g f ws wt inf } : St σ).abs =
      { st.abs with edges := st.abs.edges ++ [⟨f, ws.toR, wt.toR, inf⟩] } := by
  have hl : liveE st.h ⟨f, ws, wt, inf⟩ = true := by simp [liveE, hls, hlt]
  simp only [abs_def, addEdge]
  simp [hl, Edge.toA]

theorem known_OK {q : Quirks} {st : St σ} (hI : Inv q st) (f : Fld) (ws wt : W) (hs : ws ∈ st.g.nodes)
    (ht : wt ∈ st.g.nodes) (hre : relationExists st.g f ws wt = true) (hok : OK q (known st f ws wt)) :
    OK q st ∧ edgeExists st.g f ws wt = true := by
  constructor
  · refine ⟨?_, hok.2⟩
    rcases hok.1 with hq | hq
    · exact Or.inl hq
    · simp only [known, Bool.or_eq_false_iff] at hq
      exact Or.inr hq.1
  · rcases hok.1 with hq | hq
    · exact relationExists_imp_edgeExists hI hq f ws wt hs ht hre
    · simp only [known, Bool.or_eq_false_iff, Bool.not_eq_eq_eq_not, Bool.not_false] at hq
      exact hq.2

/-- the direct assertion (`PredicateClassRelation.add_to_graph`) on two wrapped live instances -/
theorem rel_core {q : Quirks} {st : St σ} (hI : Inv q st) (f : Fld) (ws wt : W) (hs : ws ∈ st.g.nodes)
    (ht : wt ∈ st.g.nodes) (hls : st.h.isLive ws.obj = true) (hlt : st.h.isLive wt.obj = true)
    (hok : OK q (if relationExists st.g f ws wt then known st f ws wt
                 else { st with g := addEdge st.g f ws wt false })) :
    OK q st ∧
    (if relationExists st.g f ws wt then known st f ws wt else { st with g := addEdge st.g f ws wt false }).abs =
      (if st.abs.exists_ f ws.toR wt.toR then st.abs
       else { st.abs with edges := st.abs.edges ++ [⟨f, ws.toR, wt.toR, false⟩] }) := by
  have hex := exists_of_edge hI f ws wt hs ht hls hlt
  by_cases hre : relationExists st.g f ws wt = true
  · simp only [hre, if_true] at hok ⊢
    have k := known_OK hI f ws wt hs ht hre hok
    have hx : st.abs.exists_ f ws.toR wt.toR = true := hex.2 k.2
    rw [hx]
    exact ⟨k.1, rfl⟩
  · simp only [hre] at hok ⊢
    have hne : st.abs.exists_ f ws.toR wt.toR = false := by
      cases hx : st.abs.exists_ f ws.toR wt.toR with
      | false => rfl
      | true => exact absurd (edgeExists_imp_relationExists hI f ws wt (hex.1 hx)) hre
    rw [hne]
    exact ⟨hok, abs_addEdge st f ws wt false hls hlt⟩

theorem Frame.isLive {st st' : St σ} (h : Frame st st') : st'.h.isLive = st.h.isLive := by
  funext o; simp [Heap.isLive, h.live]

/-- folding a guarded step of the model against the unguarded step of the specification over the kept items -/
theorem foldl_sim {α β : Type} {q : Quirks} (P : St σ → Prop) (Q : α → Prop) (fm : St σ → α → St σ)
    (fs : Spec → β → Spec) (g : α → Bool) (t : α → β)
    (hlive : ∀ s x, P s → Q x → g x = true →
      P (fm s x) ∧ (OK q (fm s x) → OK q s ∧ (fm s x).abs = fs s.abs (t x)))
    (hdead : ∀ s x, P s → Q x → g x = false → P (fm s x) ∧ (OK q (fm s x) → OK q s ∧ (fm s x).abs = s.abs)) :
    ∀ (l : List α) (s : St σ), P s → (∀ x ∈ l, Q x) → OK q (l.foldl fm s) →
      OK q s ∧ (l.foldl fm s).abs = ((l.filter g).map t).foldl fs s.abs
  | [], s, _, _, hok => ⟨hok, rfl⟩
  | x :: l, s, hP, hQ, hok => by
    simp only [List.foldl_cons] at hok ⊢
    have hx := hQ x List.mem_cons_self
    cases hg : g x with
    | true =>
      have h1 := hlive s x hP hx hg
      have ih := foldl_sim P Q fm fs g t hlive hdead l (fm s x) h1.1 (fun y hy => hQ y (List.mem_cons_of_mem _ hy)) hok
      have h2 := h1.2 ih.1
      refine ⟨h2.1, ?_⟩
      rw [ih.2, h2.2]
      simp [hg]
    | false =>
      have h1 := hdead s x hP hx hg
      have ih := foldl_sim P Q fm fs g t hlive hdead l (fm s x) h1.1 (fun y hy => hQ y (List.mem_cons_of_mem _ hy)) hok
      have h2 := h1.2 ih.1
      refine ⟨h2.1, ?_⟩
      rw [ih.2, h2.2]
      simp [hg]

/-- `rec` (the model's `add_to_graph` of an inferred relation) is simulated by `srec` -/
def SimRec (q : Quirks) (rec : St σ → Fld → W → W → St σ) (srec : Spec → Fld → R → R → Spec) : Prop :=
  ∀ s f ws wt, Inv q s → ws ∈ s.g.nodes → wt ∈ s.g.nodes →
    s.h.isLive ws.obj = true → s.h.isLive wt.obj = true →
    OK q (rec s f ws wt) → OK q s ∧ (rec s f ws wt).abs = srec s.abs f ws.toR wt.toR

/-- a fold of `rec` over field names with fixed ends -/
theorem sim_foldFields {q : Quirks} {rec srec} (hrec : RecOK q rec) (hsim : SimRec q rec srec)
    (s : St σ) (fs : List Fld) (ws wt : W) (hI : Inv q s) (hs : ws ∈ s.g.nodes) (ht : wt ∈ s.g.nodes)
    (hls : s.h.isLive ws.obj = true) (hlt : s.h.isLive wt.obj = true)
    (hok : OK q (fs.foldl (fun st f' => rec st f' ws wt) s)) :
    OK q s ∧ (fs.foldl (fun st f' => rec st f' ws wt) s).abs = fs.foldl (fun s f' => srec s f' ws.toR wt.toR) s.abs := by
  have := foldl_sim (q := q) (Keeps q s) (fun _ => True) (fun s f' => rec s f' ws wt)
    (fun s f' => srec s f' ws.toR wt.toR) (fun _ => true) id
    (fun s' x hP _ _ => ⟨hP.trans (hrec s' x ws wt hP.1 (hP.2.nodes _ hs) (hP.2.nodes _ ht)),
      fun hok => hsim s' x ws wt hP.1 (hP.2.nodes _ hs) (hP.2.nodes _ ht) (by rw [hP.2.isLive]; exact hls)
        (by rw [hP.2.isLive]; exact hlt) hok⟩)
    (fun s x _ _ hg => by simp at hg)
    fs s (Keeps.refl hI) (fun _ _ => trivial) hok
  simpa using this

theorem takerOf_abs (S : Schema) (s : St σ) (w : W) :
    s.abs.h.takerOf S w.toR.obj w.toR.cls = s.h.takerOf S w.obj w.cls := rfl

theorem sim_inferTakerSupers {q : Quirks} {S : Schema} {a : Alloc σ} (ha : a.Valid) {rec srec} (hrec : RecOK q rec)
    (hsim : SimRec q rec srec) (s : St σ) (f : Fld) (ws wt : W) (hI : Inv q s) (ht : wt ∈ s.g.nodes)
    (hlt : s.h.isLive wt.obj = true) (hok : OK q (inferTakerSupers S a rec s f ws wt)) :
    OK q s ∧ (inferTakerSupers S a rec s f ws wt).abs = Spec.inferTakerSupers S srec s.abs f ws.toR wt.toR := by
  unfold inferTakerSupers Spec.inferTakerSupers at *
  rw [takerOf_abs]
  have hc : (ws.toR).cls = ws.cls := rfl
  rw [hc]
  by_cases herr : s.err = true
  · simp only [herr, Bool.true_or, if_true] at hok
    have := hI.not_err_of_OK hok
    rw [herr] at this; cases this
  have herr' : s.err = false := by simpa using herr
  simp only [herr', Bool.false_or] at hok ⊢
  by_cases hemp : (S.takerSupers f ws.cls).isEmpty = true
  · simp only [hemp, if_true] at hok ⊢
    exact ⟨hok, trivial⟩
  simp only [hemp, Bool.false_eq_true, if_false] at hok ⊢
  cases hx : s.h.takerOf S ws.obj ws.cls with
  | none => simp only [hx] at hok ⊢; exact ⟨hok, trivial⟩
  | some x =>
    simp only [hx] at hok ⊢
    have hxl := takerOf_live hx
    have e := keeps_ensureSt ha hI x hxl
    have ae : (ensureSt a s x).1.abs = s.abs.ensure x := abs_ensure (a := a) hI x hxl
    have hl2 : (ensureSt a s x).1.h.isLive (ensureSt a s x).2.obj = true := by
      have : (ensureSt a s x).2.obj = x.obj := congrArg R.obj e.2.2
      rw [this, e.1.2.isLive, isLive_iff]; exact ⟨x, hxl, rfl⟩
    have r := sim_foldFields hrec hsim (ensureSt a s x).1 (S.takerSupers f ws.cls) (ensureSt a s x).2 wt e.1.1
      e.2.1 (e.1.2.nodes _ ht) hl2 (by rw [e.1.2.isLive]; exact hlt) hok
    refine ⟨r.1, ?_⟩
    rw [r.2, ae, e.2.2]

theorem sim_inferSupers {q : Quirks} {S : Schema} {a : Alloc σ} (ha : a.Valid) {rec srec} (hrec : RecOK q rec)
    (hsim : SimRec q rec srec) (s : St σ) (f : Fld) (ws wt : W) (hI : Inv q s)
    (hs : ws ∈ s.g.nodes) (ht : wt ∈ s.g.nodes) (hls : s.h.isLive ws.obj = true)
    (hlt : s.h.isLive wt.obj = true) (hok : OK q (inferSupers S a rec s f ws wt)) :
    OK q s ∧ (inferSupers S a rec s f ws wt).abs = Spec.inferSupers S srec s.abs f ws.toR wt.toR := by
  unfold inferSupers Spec.inferSupers at *
  have k1 : Keeps q s ((S.supers f ws.cls).foldl (fun st f' => rec st f' ws wt) s) :=
    keeps_foldl _ _ (fun _ => True) (fun s' f' h _ => hrec s' f' ws wt h.1 (h.2.nodes _ hs) (h.2.nodes _ ht)) _ hI
      (fun _ _ => trivial)
  have h2 := sim_inferTakerSupers ha hrec hsim _ f ws wt k1.1 (k1.2.nodes _ ht) (by rw [k1.2.isLive]; exact hlt) hok
  have h1 := sim_foldFields hrec hsim s (S.supers f ws.cls) ws wt hI hs ht hls hlt h2.1
  refine ⟨h1.1, ?_⟩
  rw [h2.2, h1.2]
  rfl

theorem sim_inferInverse {q : Quirks} {S : Schema} {a : Alloc σ} (ha : a.Valid) {rec srec}
    (hsim : SimRec q rec srec) (s : St σ) (f : Fld) (ws wt : W) (hI : Inv q s)
    (hs : ws ∈ s.g.nodes) (ht : wt ∈ s.g.nodes) (hls : s.h.isLive ws.obj = true)
    (hlt : s.h.isLive wt.obj = true) (hok : OK q (inferInverse S a rec s f ws wt)) :
    OK q s ∧ (inferInverse S a rec s f ws wt).abs = Spec.inferInverse S srec s.abs f ws.toR wt.toR := by
  unfold inferInverse Spec.inferInverse at *
  rw [takerOf_abs]
  have : (wt.toR).cls = wt.cls := rfl
  rw [this]
  cases hi : S.inverse f wt.cls with
  | some f' =>
    simp only [hi] at hok ⊢
    exact hsim _ _ _ _ hI ht hs hlt hls hok
  | none =>
    simp only [hi] at hok ⊢
    cases hti : S.takerInverse f wt.cls with
    | none => simp only [hti] at hok ⊢; exact ⟨hok, trivial⟩
    | some f' =>
      simp only [hti] at hok ⊢
      by_cases herr : s.err = true
      · simp only [herr, if_true] at hok
        have := hI.not_err_of_OK hok
        rw [herr] at this; cases this
      have herr' : s.err = false := by simpa using herr
      simp only [herr', Bool.false_eq_true, if_false] at hok ⊢
      cases hx : s.h.takerOf S wt.obj wt.cls with
      | none => simp only [hx] at hok ⊢; exact ⟨hok, trivial⟩
      | some x =>
        simp only [hx] at hok ⊢
        have hxl := takerOf_live hx
        have e := keeps_ensureSt ha hI x hxl
        have ae : (ensureSt a s x).1.abs = s.abs.ensure x := abs_ensure (a := a) hI x hxl
        have hl2 : (ensureSt a s x).1.h.isLive (ensureSt a s x).2.obj = true := by
          have : (ensureSt a s x).2.obj = x.obj := congrArg R.obj e.2.2
          rw [this, e.1.2.isLive, isLive_iff]; exact ⟨x, hxl, rfl⟩
        have r := hsim (ensureSt a s x).1 f' (ensureSt a s x).2 ws e.1.1 e.2.1 (e.1.2.nodes _ hs) hl2
          (by rw [e.1.2.isLive]; exact hls) hok
        refine ⟨r.1, ?_⟩
        rw [r.2, ae, e.2.2]

theorem deadEnd_sim {q : Quirks} (s : St σ) (f : Fld) (ws wt : W) (hok : OK q (deadEnd q s f ws wt)) :
    OK q s ∧ (deadEnd q s f ws wt).abs = s.abs := by
  unfold deadEnd at *
  split at hok
  · rename_i hq
    rcases hok.2 with h | h
    · rw [hq] at h; cases h
    · cases h
  · rename_i hq
    simp only [hq]
    exact ⟨⟨hok.1, Or.inl (by simpa using hq)⟩, rfl⟩

theorem abs_edges (s : St σ) : s.abs.edges = (s.g.edges.filter (liveE s.h)).map Edge.toA := rfl

/-- the out-edges of `wt` that the model enumerates and keeps are the out-edges of its object in the
specification, in the same order -/
theorem outs_eq {q : Quirks} {S : Schema} {s : St σ} (hI : Inv q s) (f : Fld) (wt : W) (ht : wt ∈ s.g.nodes)
    (hlt : s.h.isLive wt.obj = true) :
    (s.abs.edges.filter (fun e => e.src == wt.toR && S.desc e.fld == S.desc f)).reverse =
    (((s.g.edges.filter (fun e => e.src.idx == wt.idx && S.desc e.fld == S.desc f)).reverse).filter
      (fun e => s.h.isLive e.tgt.obj)).map Edge.toA := by
  rw [abs_edges, List.filter_map, ← List.map_reverse, List.filter_filter, ← List.filter_reverse]
  conv => rhs; rw [← List.filter_reverse, List.filter_filter]
  congr 1
  apply List.filter_congr
  intro e he
  rw [List.mem_reverse] at he
  have hn := hI.edgeNodes e he
  have h1 : (e.toA.src == wt.toR) = (e.src.idx == wt.idx) := by
    rw [Bool.eq_iff_iff]; simp only [beq_iff_eq]
    show e.src.toR = wt.toR ↔ _
    rw [toR_inj hI hn.1 ht]
    constructor
    · rintro h; rw [h]
    · exact hI.idxInj _ hn.1 _ ht
  simp only [Function.comp, liveE]
  have h2 : e.toA.fld = e.fld := rfl
  rw [h1, h2]
  by_cases hc : e.src.idx = wt.idx
  · have := hI.idxInj _ hn.1 _ ht hc
    rw [this, hlt]; simp [Bool.and_comm]
  · have hb : (e.src.idx == wt.idx) = false := by simpa using hc
    rw [hb]; simp

theorem ins_eq {q : Quirks} {S : Schema} {s : St σ} (hI : Inv q s) (f : Fld) (ws : W) (hs : ws ∈ s.g.nodes)
    (hls : s.h.isLive ws.obj = true) :
    (s.abs.edges.filter (fun e => e.tgt == ws.toR && S.desc e.fld == S.desc f)).reverse =
    (((s.g.edges.filter (fun e => e.tgt.idx == ws.idx && S.desc e.fld == S.desc f)).reverse).filter
      (fun e => s.h.isLive e.src.obj)).map Edge.toA := by
  rw [abs_edges, List.filter_map, ← List.map_reverse, List.filter_filter, ← List.filter_reverse]
  conv => rhs; rw [← List.filter_reverse, List.filter_filter]
  congr 1
  apply List.filter_congr
  intro e he
  rw [List.mem_reverse] at he
  have hn := hI.edgeNodes e he
  have h1 : (e.toA.tgt == ws.toR) = (e.tgt.idx == ws.idx) := by
    rw [Bool.eq_iff_iff]; simp only [beq_iff_eq]
    show e.tgt.toR = ws.toR ↔ _
    rw [toR_inj hI hn.2 hs]
    constructor
    · rintro h; rw [h]
    · exact hI.idxInj _ hn.2 _ hs
  simp only [Function.comp, liveE]
  have h2 : e.toA.fld = e.fld := rfl
  rw [h1, h2]
  by_cases hc : e.tgt.idx = ws.idx
  · have := hI.idxInj _ hn.2 _ hs hc
    rw [this, hls]; simp [Bool.and_comm]
  · have hb : (e.tgt.idx == ws.idx) = false := by simpa using hc
    rw [hb]; simp

theorem sim_inferOut {q : Quirks} {S : Schema} {rec srec} (hrec : RecOK q rec)
    (hsim : SimRec q rec srec) (s : St σ) (f : Fld) (ws wt : W) (hI : Inv q s)
    (hs : ws ∈ s.g.nodes) (ht : wt ∈ s.g.nodes) (hls : s.h.isLive ws.obj = true)
    (hlt : s.h.isLive wt.obj = true) (hok : OK q (inferOut q S rec s f ws wt)) :
    OK q s ∧ (inferOut q S rec s f ws wt).abs = Spec.inferOut S srec s.abs f ws.toR wt.toR := by
  unfold inferOut Spec.inferOut at *
  rw [outs_eq hI f wt ht hlt]
  exact foldl_sim (q := q) (Keeps q s) (fun e : Edge => e.tgt ∈ s.g.nodes)
    (fun s e => if s.h.isLive e.tgt.obj then rec s e.fld ws e.tgt else deadEnd q s e.fld ws e.tgt)
    (fun s (e : AEdge) => srec s e.fld ws.toR e.tgt) (fun e => s.h.isLive e.tgt.obj) Edge.toA
    (by
      intro s' e hP he hg
      have hl : s'.h.isLive e.tgt.obj = true := by rw [hP.2.isLive]; exact hg
      simp only [hl, if_true]
      exact ⟨hP.trans (hrec _ _ _ _ hP.1 (hP.2.nodes _ hs) (hP.2.nodes _ he)),
        fun hok => hsim _ _ _ _ hP.1 (hP.2.nodes _ hs) (hP.2.nodes _ he) (by rw [hP.2.isLive]; exact hls) hl hok⟩)
    (by
      intro s' e hP _ hg
      have hl : s'.h.isLive e.tgt.obj = false := by rw [hP.2.isLive]; exact hg
      simp only [hl]
      exact ⟨hP.trans (keeps_deadEnd _ _ _ _ hP.1), fun hok => deadEnd_sim _ _ _ _ hok⟩)
    ((s.g.edges.filter (fun e => e.src.idx == wt.idx && S.desc e.fld == S.desc f)).reverse) s (Keeps.refl hI)
    (by
      intro e he
      exact (hI.edgeNodes e (List.mem_filter.1 (List.mem_reverse.1 he)).1).2)
    hok

theorem sim_inferIn {q : Quirks} {S : Schema} {rec srec} (hrec : RecOK q rec)
    (hsim : SimRec q rec srec) (s : St σ) (f : Fld) (ws wt : W) (hI : Inv q s)
    (hs : ws ∈ s.g.nodes) (ht : wt ∈ s.g.nodes) (hls : s.h.isLive ws.obj = true)
    (hlt : s.h.isLive wt.obj = true) (hok : OK q (inferIn q S rec s f ws wt)) :
    OK q s ∧ (inferIn q S rec s f ws wt).abs = Spec.inferIn S srec s.abs f ws.toR wt.toR := by
  unfold inferIn Spec.inferIn at *
  rw [ins_eq hI f ws hs hls]
  exact foldl_sim (q := q) (Keeps q s) (fun e : Edge => e.src ∈ s.g.nodes)
    (fun s e => if s.h.isLive e.src.obj then rec s e.fld e.src wt else deadEnd q s e.fld e.src wt)
    (fun s (e : AEdge) => srec s e.fld e.src wt.toR) (fun e => s.h.isLive e.src.obj) Edge.toA
    (by
      intro s' e hP he hg
      have hl : s'.h.isLive e.src.obj = true := by rw [hP.2.isLive]; exact hg
      simp only [hl, if_true]
      exact ⟨hP.trans (hrec _ _ _ _ hP.1 (hP.2.nodes _ he) (hP.2.nodes _ ht)),
        fun hok => hsim _ _ _ _ hP.1 (hP.2.nodes _ he) (hP.2.nodes _ ht) hl (by rw [hP.2.isLive]; exact hlt) hok⟩)
    (by
      intro s' e hP _ hg
      have hl : s'.h.isLive e.src.obj = false := by rw [hP.2.isLive]; exact hg
      simp only [hl]
      exact ⟨hP.trans (keeps_deadEnd _ _ _ _ hP.1), fun hok => deadEnd_sim _ _ _ _ hok⟩)
    ((s.g.edges.filter (fun e => e.tgt.idx == ws.idx && S.desc e.fld == S.desc f)).reverse) s (Keeps.refl hI)
    (by
      intro e he
      exact (hI.edgeNodes e (List.mem_filter.1 (List.mem_reverse.1 he)).1).1)
    hok

theorem sim_inferTransitive {q : Quirks} {S : Schema} {rec srec} (hrec : RecOK q rec)
    (hsim : SimRec q rec srec) (s : St σ) (f : Fld) (ws wt : W) (hI : Inv q s)
    (hs : ws ∈ s.g.nodes) (ht : wt ∈ s.g.nodes) (hls : s.h.isLive ws.obj = true)
    (hlt : s.h.isLive wt.obj = true) (hok : OK q (inferTransitive q S rec s f ws wt)) :
    OK q s ∧ (inferTransitive q S rec s f ws wt).abs = Spec.inferTransitive S srec s.abs f ws.toR wt.toR := by
  unfold inferTransitive Spec.inferTransitive at *
  split
  · rename_i htr
    simp only [htr, if_true] at hok
    have k1 := keeps_inferOut (S := S) hrec s f ws wt hI hs
    have h2 := sim_inferIn hrec hsim _ f ws wt k1.1 (k1.2.nodes _ hs) (k1.2.nodes _ ht)
      (by rw [k1.2.isLive]; exact hls) (by rw [k1.2.isLive]; exact hlt) hok
    have h1 := sim_inferOut hrec hsim s f ws wt hI hs ht hls hlt h2.1
    exact ⟨h1.1, by rw [h2.2, h1.2]⟩
  · rename_i htr
    simp only [htr] at hok
    exact ⟨hok, rfl⟩

theorem sim_record {S : Schema} (st : St σ) (f : Fld) (ws wt : W) (inf : Bool)
    (hls : st.h.isLive ws.obj = true) (hlt : st.h.isLive wt.obj = true) :
    (record S st f ws wt inf).abs = Spec.record S st.abs f ws.toR wt.toR inf := by
  unfold record Spec.record
  cases inf with
  | true =>
    simp only [if_true]
    show ({ ({ st with g := addEdge st.g f ws wt true } : St σ) with
      h := st.h.updateValue S f ws.obj wt.obj } : St σ).abs = _
    rw [abs_heap _ _ (by rfl), abs_addEdge st f ws wt true hls hlt]
    rfl
  | false =>
    simp only [Bool.false_eq_true, if_false]
    exact abs_addEdge st f ws wt false hls hlt

/-- **the simulation**: `add_to_graph` of the model and the object-level inference do the same thing, step by
step, as long as nothing stale or dead is hit -/
theorem sim_addFact {q : Quirks} (S : Schema) {a : Alloc σ} (ha : a.Valid) :
    ∀ (fuel : Nat) (st : St σ) (f : Fld) (ws wt : W) (inf : Bool),
    Inv q st → ws ∈ st.g.nodes → wt ∈ st.g.nodes → st.h.isLive ws.obj = true → st.h.isLive wt.obj = true →
    OK q (SG.addFact q S a fuel st f ws wt inf) →
    OK q st ∧ (SG.addFact q S a fuel st f ws wt inf).abs = specAddFact S fuel st.abs f ws.toR wt.toR inf
  | 0, st, f, ws, wt, inf, _, _, _, _, _, hok => ⟨hok, rfl⟩
  | fuel + 1, st, f, ws, wt, inf, hI, hs, ht, hls, hlt, hok => by
    unfold SG.addFact at hok ⊢
    unfold specAddFact
    by_cases herr : st.err = true
    · simp only [herr, if_true] at hok
      have := hI.not_err_of_OK hok
      rw [herr] at this; cases this
    have herr' : st.err = false := by simpa using herr
    simp only [herr', Bool.false_eq_true, if_false] at hok ⊢
    have hex := exists_of_edge hI f ws wt hs ht hls hlt
    by_cases hre : relationExists st.g f ws wt = true
    · -- already known
      simp only [hre, if_true] at hok ⊢
      have hedge : edgeExists st.g f ws wt = true := by
        rcases hok.1 with hq | hq
        · exact relationExists_imp_edgeExists hI hq f ws wt hs ht hre
        · simp only [known, Bool.or_eq_false_iff, Bool.not_eq_eq_eq_not, Bool.not_false] at hq
          exact hq.2
      have : st.abs.exists_ f ws.toR wt.toR = true := hex.2 hedge
      rw [this]
      refine ⟨⟨?_, hok.2⟩, rfl⟩
      rcases hok.1 with hq | hq
      · exact Or.inl hq
      · simp only [known, Bool.or_eq_false_iff] at hq
        exact Or.inr hq.1
    · -- a new relation
      simp only [hre] at hok ⊢
      have hne : st.abs.exists_ f ws.toR wt.toR = false := by
        cases hx : st.abs.exists_ f ws.toR wt.toR with
        | false => rfl
        | true => exact absurd (edgeExists_imp_relationExists hI f ws wt (hex.1 hx)) hre
      rw [hne]
      simp only [Bool.false_eq_true, if_false]
      have hrecOK : RecOK q (fun st f ws wt => SG.addFact q S a fuel st f ws wt true) :=
        fun s f' x y hI' hx hy => Inv.addFact S ha fuel s f' x y true hI' hx hy
      have hsim : SimRec q (fun st f ws wt => SG.addFact q S a fuel st f ws wt true)
          (fun s f a b => specAddFact S fuel s f a b true) :=
        fun s f' x y hI' hx hy hlx hly hok' => sim_addFact S ha fuel s f' x y true hI' hx hy hlx hly hok'
      have k0 := keeps_record (S := S) hI f ws wt inf hs ht
      have k1 := k0.trans (keeps_inferSupers (S := S) ha hrecOK _ f ws wt k0.1 (k0.2.nodes _ hs) (k0.2.nodes _ ht))
      have k2 := k1.trans (keeps_inferInverse (S := S) ha hrecOK _ f ws wt k1.1 (k1.2.nodes _ hs) (k1.2.nodes _ ht))
      have l0s : (record S st f ws wt inf).h.isLive ws.obj = true := by rw [k0.2.isLive]; exact hls
      have l0t : (record S st f ws wt inf).h.isLive wt.obj = true := by rw [k0.2.isLive]; exact hlt
      have h3 := sim_inferTransitive hrecOK hsim _ f ws wt k2.1 (k2.2.nodes _ hs) (k2.2.nodes _ ht)
        (by rw [k2.2.isLive]; exact hls) (by rw [k2.2.isLive]; exact hlt) hok
      have h2 := sim_inferInverse ha hsim _ f ws wt k1.1 (k1.2.nodes _ hs) (k1.2.nodes _ ht)
        (by rw [k1.2.isLive]; exact hls) (by rw [k1.2.isLive]; exact hlt) h3.1
      have h1 := sim_inferSupers ha hrecOK hsim _ f ws wt k0.1 (k0.2.nodes _ hs) (k0.2.nodes _ ht) l0s l0t h2.1
      refine ⟨?_, by rw [h3.2, h2.2, h1.2, sim_record st f ws wt inf hls hlt]⟩
      -- `record` does not touch the flags
      have : OK q (record S st f ws wt inf) → OK q st := by
        unfold record OK; split <;> exact id
      exact this h1.1

theorem abs_addFact {q : Quirks} (S : Schema) {a : Alloc σ} (ha : a.Valid) (st : St σ) (f : Fld) (ws wt : W)
    (hI : Inv q st)
    (hs : ws ∈ st.g.nodes) (ht : wt ∈ st.g.nodes) (hls : st.h.isLive ws.obj = true)
    (hlt : st.h.isLive wt.obj = true) (hok : OK q (SG.addFact q S a S.fuel st f ws wt false)) :
    OK q st ∧ (SG.addFact q S a S.fuel st f ws wt false).abs = st.abs.assert S f ws.toR wt.toR :=
  sim_addFact S ha S.fuel st f ws wt false hI hs ht hls hlt hok

/-- **one operation**: if nothing stale or dead was hit, the model did what the specification does -/
theorem step_abs (q : Quirks) (S : Schema) (a : Alloc σ) (ha : a.Valid) (st : St σ) (op : Op) (hI : Inv q st)
    (hok : OK q (step q S a st op)) : OK q st ∧ (step q S a st op).abs = specStep q S st.abs op := by
  by_cases herr : st.err = true
  · have : step q S a st op = st := by unfold step; simp [herr]
    rw [this] at hok
    have := hI.not_err_of_OK hok
    rw [herr] at this; cases this
  have herr' : st.err = false := by simpa using herr
  unfold step at hok ⊢
  unfold specStep
  rw [if_neg herr] at hok ⊢
  have hh : st.abs.h = st.h := rfl
  cases op with
  | new o c pid =>
    simp only [hh] at hok ⊢
    by_cases hc : (st.h.used.contains o || st.h.live.any fun x => x.pid == pid) = true
    · simp only [if_pos hc] at hok ⊢
      exact ⟨hok, trivial⟩
    · simp only [if_neg hc] at hok ⊢
      simp only [Bool.or_eq_true, List.contains_iff_mem, List.any_eq_true, beq_iff_eq, not_or, not_exists,
        not_and] at hc
      refine ⟨hok, ?_⟩
      have := abs_addNode (a := a) hI ⟨o, c, pid⟩
        { st.h with live := st.h.live ++ [⟨o, c, pid⟩], used := st.h.used ++ [o], held := st.h.held ++ [o],
                    epoch := st.h.epoch ++ [o] }
        (by intro o'; simp [Heap.isLive, List.any_append])
        (by intro w hw ho; have ho' : w.obj = o := ho; exact hc.1 (ho' ▸ hI.nodeUsed w hw))
      exact this
  | drop o =>
    refine ⟨hok, ?_⟩
    have h1 := abs_heap st { st.h with held := st.h.held.filter (fun x => x != o) } rfl
    have h2 := abs_kill ({ st with h := { st.h with held := st.h.held.filter (fun x => x != o) } } : St σ)
      (Heap.garbage q { st.h with held := st.h.held.filter (fun x => x != o) })
    simp only [Heap.collect]
    rw [h1] at h2
    exact h2
  | sweep => exact ⟨hok, abs_sweep hI⟩
  | clear =>
    refine ⟨hok, ?_⟩
    simp [abs_def, SG.empty]
  | rel f s t =>
    simp only [hh] at hok ⊢
    cases hs : st.h.find s with
    | none => simp only [hs] at hok ⊢; exact ⟨hok, trivial⟩
    | some xs =>
      cases ht : st.h.find t with
      | none => simp only [hs, ht] at hok ⊢; exact ⟨hok, trivial⟩
      | some xt =>
        simp only [hs, ht] at hok ⊢
        have hxs := find_some hs
        have hxt := find_some ht
        have e := hI.ensure2 ha xs xt hxs.1 hxt.1
        have ae := abs_ensure2 ha hI xs xt hxs.1 hxt.1
        have hflag : OK q (SG.ensure2 a st xs xt).1 → OK q st := id
        generalize SG.ensure2 a st xs xt = p at *
        obtain ⟨st2, ws, wt⟩ := p
        simp only at e ae hok hflag ⊢
        have hls : st2.h.isLive ws.obj = true := by
          have : ws.obj = xs.obj := congrArg R.obj e.2.2.2.1
          rw [this, isLive_iff]; exact ⟨xs, e.2.2.2.2.2 ▸ hxs.1, rfl⟩
        have hlt : st2.h.isLive wt.obj = true := by
          have : wt.obj = xt.obj := congrArg R.obj e.2.2.2.2.1
          rw [this, isLive_iff]; exact ⟨xt, e.2.2.2.2.2 ▸ hxt.1, rfl⟩
        have r := rel_core e.1 f ws wt e.2.1 e.2.2.1 hls hlt hok
        rw [← ae, ← e.2.2.2.1, ← e.2.2.2.2.1]
        exact ⟨hflag r.1, r.2⟩
  | set f s t =>
    simp only [hh] at hok ⊢
    cases hs : st.h.find s with
    | none => simp only [hs] at hok ⊢; exact ⟨hok, trivial⟩
    | some xs =>
      cases ht : st.h.find t with
      | none => simp only [hs, ht] at hok ⊢; exact ⟨hok, trivial⟩
      | some xt =>
        simp only [hs, ht] at hok ⊢
        have hxs := find_some hs
        have hxt := find_some ht
        cases hk : S.kind f with
        | scalar =>
          simp only [hk] at hok ⊢
          have hI1 : Inv q { st with h := st.h.write S f s t } :=
            hI.heap_irrelevant _ (by simp) (by simp) (by simp)
          have a1 : ({ st with h := st.h.write S f s t } : St σ).abs = { st.abs with h := st.h.write S f s t } :=
            abs_heap st _ (by simp)
          have e := hI1.ensure2 ha xs xt (by simpa using hxs.1) (by simpa using hxt.1)
          have ae := abs_ensure2 ha hI1 xs xt (by simpa using hxs.1) (by simpa using hxt.1)
          have hflag : OK q (SG.ensure2 a { st with h := st.h.write S f s t } xs xt).1 → OK q st := id
          generalize SG.ensure2 a { st with h := st.h.write S f s t } xs xt = p at *
          obtain ⟨st2, ws, wt⟩ := p
          simp only at e ae hok hflag ⊢
          have hls : st2.h.isLive ws.obj = true := by
            have : ws.obj = xs.obj := congrArg R.obj e.2.2.2.1
            rw [this, isLive_iff]; exact ⟨xs, by rw [e.2.2.2.2.2]; simpa using hxs.1, rfl⟩
          have hlt : st2.h.isLive wt.obj = true := by
            have : wt.obj = xt.obj := congrArg R.obj e.2.2.2.2.1
            rw [this, isLive_iff]; exact ⟨xt, by rw [e.2.2.2.2.2]; simpa using hxt.1, rfl⟩
          have hok3 : OK q (SG.addFact q S a S.fuel st2 f ws wt false) := hok
          have r := abs_addFact S ha st2 f ws wt e.1 e.2.1 e.2.2.1 hls hlt hok3
          refine ⟨hflag r.1, ?_⟩
          have r2 := r.2
          generalize SG.addFact q S a S.fuel st2 f ws wt false = st3 at *
          have hh3 : st3.h = (st2.abs.assert S f ws.toR wt.toR).h := by rw [← r2]; rfl
          have k := abs_kill st3 (Heap.garbage q st3.h)
          simp only [Heap.collect]
          rw [k, hh3, r2, ae, a1, ← e.2.2.2.1, ← e.2.2.2.2.1]
        | list =>
          simp only [hk] at hok ⊢
          have e := hI.ensure2 ha xs xt hxs.1 hxt.1
          have ae := abs_ensure2 ha hI xs xt hxs.1 hxt.1
          have hflag : OK q (SG.ensure2 a st xs xt).1 → OK q st := id
          generalize SG.ensure2 a st xs xt = p at *
          obtain ⟨st2, ws, wt⟩ := p
          simp only at e ae hok hflag ⊢
          have hls : st2.h.isLive ws.obj = true := by
            have : ws.obj = xs.obj := congrArg R.obj e.2.2.2.1
            rw [this, isLive_iff]; exact ⟨xs, e.2.2.2.2.2 ▸ hxs.1, rfl⟩
          have hlt : st2.h.isLive wt.obj = true := by
            have : wt.obj = xt.obj := congrArg R.obj e.2.2.2.2.1
            rw [this, isLive_iff]; exact ⟨xt, e.2.2.2.2.2 ▸ hxt.1, rfl⟩
          have k3 := Inv.addFact S ha S.fuel st2 f ws wt false e.1 e.2.1 e.2.2.1
          by_cases herr3 : (SG.addFact q S a S.fuel st2 f ws wt false).err = true
          · rw [if_pos herr3] at hok
            have := k3.1.not_err_of_OK hok
            rw [herr3] at this; cases this
          · rw [if_neg herr3] at hok ⊢
            have hok3 : OK q (SG.addFact q S a S.fuel st2 f ws wt false) := hok
            have r := abs_addFact S ha st2 f ws wt e.1 e.2.1 e.2.2.1 hls hlt hok3
            refine ⟨hflag r.1, ?_⟩
            have r2 := r.2
            generalize SG.addFact q S a S.fuel st2 f ws wt false = st3 at *
            have a3 := abs_heap st3 (st3.h.write S f s t) (by simp)
            have hh3 : st3.h = (st2.abs.assert S f ws.toR wt.toR).h := by rw [← r2]; rfl
            have k : ({ st3 with h := (st3.h.write S f s t).kill (Heap.garbage q (st3.h.write S f s t)) } : St σ).abs =
                ({ ({ st3 with h := st3.h.write S f s t } : St σ).abs with
                   h := (st3.h.write S f s t).kill (Heap.garbage q (st3.h.write S f s t)) } : Spec).prune :=
              abs_kill ({ st3 with h := st3.h.write S f s t } : St σ) _
            simp only [Heap.collect]
            rw [k, a3, hh3, r2, ae, ← e.2.2.2.1, ← e.2.2.2.2.1]
        | set =>
          simp only [hk] at hok ⊢
          have e := hI.ensure2 ha xs xt hxs.1 hxt.1
          have ae := abs_ensure2 ha hI xs xt hxs.1 hxt.1
          have hflag : OK q (SG.ensure2 a st xs xt).1 → OK q st := id
          generalize SG.ensure2 a st xs xt = p at *
          obtain ⟨st2, ws, wt⟩ := p
          simp only at e ae hok hflag ⊢
          have hls : st2.h.isLive ws.obj = true := by
            have : ws.obj = xs.obj := congrArg R.obj e.2.2.2.1
            rw [this, isLive_iff]; exact ⟨xs, e.2.2.2.2.2 ▸ hxs.1, rfl⟩
          have hlt : st2.h.isLive wt.obj = true := by
            have : wt.obj = xt.obj := congrArg R.obj e.2.2.2.2.1
            rw [this, isLive_iff]; exact ⟨xt, e.2.2.2.2.2 ▸ hxt.1, rfl⟩
          have k3 := Inv.addFact S ha S.fuel st2 f ws wt false e.1 e.2.1 e.2.2.1
          by_cases herr3 : (SG.addFact q S a S.fuel st2 f ws wt false).err = true
          · rw [if_pos herr3] at hok
            have := k3.1.not_err_of_OK hok
            rw [herr3] at this; cases this
          · rw [if_neg herr3] at hok ⊢
            have hok3 : OK q (SG.addFact q S a S.fuel st2 f ws wt false) := hok
            have r := abs_addFact S ha st2 f ws wt e.1 e.2.1 e.2.2.1 hls hlt hok3
            refine ⟨hflag r.1, ?_⟩
            have r2 := r.2
            generalize SG.addFact q S a S.fuel st2 f ws wt false = st3 at *
            have a3 := abs_heap st3 (st3.h.write S f s t) (by simp)
            have hh3 : st3.h = (st2.abs.assert S f ws.toR wt.toR).h := by rw [← r2]; rfl
            have k : ({ st3 with h := (st3.h.write S f s t).kill (Heap.garbage q (st3.h.write S f s t)) } : St σ).abs =
                ({ ({ st3 with h := st3.h.write S f s t } : St σ).abs with
                   h := (st3.h.write S f s t).kill (Heap.garbage q (st3.h.write S f s t)) } : Spec).prune :=
              abs_kill ({ st3 with h := st3.h.write S f s t } : St σ) _
            simp only [Heap.collect]
            rw [k, a3, hh3, r2, ae, ← e.2.2.2.1, ← e.2.2.2.2.1]
        | plain =>
          simp only [hk] at hok ⊢
          have e := hI.ensure2 ha xs xt hxs.1 hxt.1
          have ae := abs_ensure2 ha hI xs xt hxs.1 hxt.1
          have hflag : OK q (SG.ensure2 a st xs xt).1 → OK q st := id
          generalize SG.ensure2 a st xs xt = p at *
          obtain ⟨st2, ws, wt⟩ := p
          simp only at e ae hok hflag ⊢
          have hls : st2.h.isLive ws.obj = true := by
            have : ws.obj = xs.obj := congrArg R.obj e.2.2.2.1
            rw [this, isLive_iff]; exact ⟨xs, e.2.2.2.2.2 ▸ hxs.1, rfl⟩
          have hlt : st2.h.isLive wt.obj = true := by
            have : wt.obj = xt.obj := congrArg R.obj e.2.2.2.2.1
            rw [this, isLive_iff]; exact ⟨xt, e.2.2.2.2.2 ▸ hxt.1, rfl⟩
          have k3 := Inv.addFact S ha S.fuel st2 f ws wt false e.1 e.2.1 e.2.2.1
          by_cases herr3 : (SG.addFact q S a S.fuel st2 f ws wt false).err = true
          · rw [if_pos herr3] at hok
            have := k3.1.not_err_of_OK hok
            rw [herr3] at this; cases this
          · rw [if_neg herr3] at hok ⊢
            have hok3 : OK q (SG.addFact q S a S.fuel st2 f ws wt false) := hok
            have r := abs_addFact S ha st2 f ws wt e.1 e.2.1 e.2.2.1 hls hlt hok3
            refine ⟨hflag r.1, ?_⟩
            have r2 := r.2
            generalize SG.addFact q S a S.fuel st2 f ws wt false = st3 at *
            have a3 := abs_heap st3 (st3.h.write S f s t) (by simp)
            have hh3 : st3.h = (st2.abs.assert S f ws.toR wt.toR).h := by rw [← r2]; rfl
            have k : ({ st3 with h := (st3.h.write S f s t).kill (Heap.garbage q (st3.h.write S f s t)) } : St σ).abs =
                ({ ({ st3 with h := st3.h.write S f s t } : St σ).abs with
                   h := (st3.h.write S f s t).kill (Heap.garbage q (st3.h.write S f s t)) } : Spec).prune :=
              abs_kill ({ st3 with h := st3.h.write S f s t } : St σ) _
            simp only [Heap.collect]
            rw [k, a3, hh3, r2, ae, ← e.2.2.2.1, ← e.2.2.2.2.1]
  | mkq k c dom =>
    simp only [hh] at hok ⊢
    by_cases hc : (st.h.qvars.any fun v => v.key == k) = true
    · simp only [if_pos hc] at hok ⊢
      exact ⟨hok, trivial⟩
    · simp only [if_neg hc] at hok ⊢
      exact ⟨hok, abs_heap st _ rfl⟩
  | evalq k =>
    simp only [hh] at hok ⊢
    cases hf : st.h.qvars.find? (fun v => v.key == k) with
    | none => simp only [hf] at hok ⊢; exact ⟨hok, trivial⟩
    | some v =>
      simp only [hf] at hok ⊢
      refine ⟨hok, ?_⟩
      have hres : evalQuery q S (SG.sweep q a st.g st.h.isLive) v = st.abs.evalQuery q S v := by
        unfold evalQuery Spec.evalQuery
        rw [census_eq hI]
      rw [← hres]
      generalize evalQuery q S (SG.sweep q a st.g st.h.isLive) v = res
      have a1 := abs_sweep (a := a) hI
      have a2 := abs_heap ({ st with g := SG.sweep q a st.g st.h.isLive } : St σ) (st.h.recordEval S k v res) rfl
      have a3 := abs_kill ({ st with g := SG.sweep q a st.g st.h.isLive, h := st.h.recordEval S k v res } : St σ)
        (Heap.garbage q (st.h.recordEval S k v res))
      simp only [Heap.collect]
      rw [a2, a1] at a3
      exact a3
  | dropq k =>
    simp only [hh] at hok ⊢
    cases hf : st.h.qvars.find? (fun v => v.key == k) with
    | none => simp only [hf] at hok ⊢; exact ⟨hok, trivial⟩
    | some v =>
      simp only [hf] at hok ⊢
      by_cases hv : (!v.held) = true
      · simp only [if_pos hv] at hok ⊢
        exact ⟨hok, trivial⟩
      · simp only [if_neg hv] at hok ⊢
        refine ⟨hok, ?_⟩
        have hl : (st.h.dropQuery q k).live = st.h.live := by unfold Heap.dropQuery; split <;> rfl
        have a2 := abs_heap st (st.h.dropQuery q k) hl
        have a3 := abs_kill ({ st with h := st.h.dropQuery q k } : St σ) (Heap.garbage q (st.h.dropQuery q k))
        simp only [Heap.collect]
        rw [a2] at a3
        exact a3
  | newrole o c pid e =>
    simp only [hh] at hok ⊢
    by_cases hc : (st.h.used.contains o || (st.h.live.any fun x => x.pid == pid) || !st.h.isLive e) = true
    · simp only [if_pos hc] at hok ⊢
      exact ⟨hok, trivial⟩
    · simp only [if_neg hc] at hok ⊢
      simp only [Bool.or_eq_true, List.contains_iff_mem, List.any_eq_true, beq_iff_eq, not_or, not_exists,
        not_and] at hc
      refine ⟨hok, ?_⟩
      have := abs_addNode (a := a) hI ⟨o, c, pid⟩
        { st.h with live := st.h.live ++ [⟨o, c, pid⟩], used := st.h.used ++ [o], held := st.h.held ++ [o],
                    epoch := st.h.epoch ++ [o],
                    fields := match S.takerFld c with
                              | some tf => st.h.fields ++ [⟨o, tf, e⟩]
                              | none => st.h.fields }
        (by intro o'; simp [Heap.isLive, List.any_append])
        (by intro w hw ho; have ho' : w.obj = o := ho; exact hc.1.1 (ho' ▸ hI.nodeUsed w hw))
      exact this


theorem run_abs (q : Quirks) (S : Schema) (a : Alloc σ) (ha : a.Valid) : ∀ (ops : List Op) (st : St σ), Inv q st →
    OK q (ops.foldl (step q S a) st) →
    OK q st ∧ (ops.foldl (step q S a) st).abs = ops.foldl (specStep q S) st.abs
  | [], st, _, hok => ⟨hok, rfl⟩
  | op :: ops, st, hI, hok => by
    simp only [List.foldl_cons] at hok ⊢
    have ih := run_abs q S a ha ops (step q S a st op) (C13_inv_step q S a ha st op hI) hok
    have h1 := step_abs q S a ha st op hI ih.1
    exact ⟨h1.1, by rw [ih.2, h1.2]⟩

theorem init_abs (a : Alloc σ) : (St.init a).abs = Spec.init := by
  simp [abs_def, St.init, SG.empty, Spec.init]

/-- **C14_model_eq_spec.** For every history, every valid node-index allocator and every `id()` recycling: unless an
existence check was answered by a stale `_relation_index` entry or the transitive inference met a dead end — neither
can happen once the two quirks are off — the state of the model, read at the level of objects, IS the state of the
index-free specification; in particular relations among live instances and field contents coincide. -/
theorem C14_model_eq_spec (q : Quirks) (S : Schema) (a : Alloc σ) (ha : a.Valid) (ops : List Op)
    (hok : OK q (run q S a ops)) :
    (run q S a ops).abs = specRun q S ops ∧ (run q S a ops).relObs = (specRun q S ops).relObs := by
  have h := run_abs q S a ha ops (St.init a) (C13_inv_init q a) hok
  have habs : (run q S a ops).abs = specRun q S ops := by
    unfold run specRun; rw [h.2, init_abs]
  refine ⟨habs, ?_⟩
  have herr := (C13_inv_run q S a ha ops).not_err_of_OK hok
  unfold St.relObs Spec.relObs
  have hh : (run q S a ops).h = (specRun q S ops).h := by rw [← habs]; rfl
  simp only [herr, Bool.false_eq_true, if_false, habs, hh]

/-- **C14_no_reuse_no_stale.** As long as the allocator has not handed out any node index a second time (ghost
`reused`, sticky across `clear`), no existence check was answered by a stale `_relation_index` entry: a stale entry
mentions an index no node has any more, and only a recycled index can bring it back. -/
theorem C14_no_reuse_no_stale (q : Quirks) (S : Schema) (a : Alloc σ) (ha : a.Valid) (ops : List Op)
    (h : (run q S a ops).g.reused = false) : (run q S a ops).staleHit = false :=
  (C13_inv_run q S a ha ops).noHit h

/-- **C14_partial.** The tree before the repair (every quirk on): for every history in which no node index is handed out
twice and no dead, unswept instance is met by the transitive inference, relations among live instances and field
contents are those of the specification (hence, by `spec_forgets`, those of the same assertions on a fresh graph). -/
theorem C14_partial (S : Schema) (a : Alloc σ) (ha : a.Valid) (ops : List Op)
    (h1 : (run Quirks.original S a ops).g.reused = false) (h2 : (run Quirks.original S a ops).deadHit = false) :
    (run Quirks.original S a ops).relObs = (specRun Quirks.original S ops).relObs :=
  (C14_model_eq_spec Quirks.original S a ha ops
    ⟨Or.inr (C14_no_reuse_no_stale Quirks.original S a ha ops h1), Or.inr h2⟩).2

/-- **C14_current.** The code as it is now (the `remove_node` repair, commit c18b52a, and the repair of F-C14-2 applied:
the transitive inference leaves out dead, unswept neighbours): for EVERY history, relations among live instances and
field contents are those of the specification — whatever node indices and ids were recycled, whatever died unswept. -/
theorem C14_current (S : Schema) (a : Alloc σ) (ha : a.Valid) (ops : List Op) :
    (run Quirks.asIs S a ops).relObs = (specRun Quirks.asIs S ops).relObs :=
  (C14_model_eq_spec Quirks.asIs S a ha ops ⟨Or.inl rfl, Or.inl rfl⟩).2

/-- **C14_partial_precise.** … and more precisely: on every history in which no existence check was answered by a
stale entry, even if indices were recycled. -/
theorem C14_partial_precise (S : Schema) (a : Alloc σ) (ha : a.Valid) (ops : List Op)
    (h1 : (run Quirks.original S a ops).staleHit = false) (h2 : (run Quirks.original S a ops).deadHit = false) :
    (run Quirks.original S a ops).relObs = (specRun Quirks.original S ops).relObs :=
  (C14_model_eq_spec Quirks.original S a ha ops ⟨Or.inr h1, Or.inr h2⟩).2

/-- with an allocator that never recycles, the hypothesis on indices holds by itself (test on a concrete history with
garbage, a sweep and new instances) -/
example : (run Quirks.original Drive.SG.schema monotone
    [.new 0 2 0, .new 1 1 1, .set 0 0 1, .drop 0, .drop 1, .sweep, .new 2 1 0, .new 3 2 1, .set 0 3 2]).g.reused = false := by
  decide


/-! ### the specification forgets a garbage prefix -/

/-- the same state with other ghost bookkeeping (labels used, labels handed to the registry, query log, table size) -/
def Spec.ghost (s : Spec) (u e : List Obj) (o : List QOut) (x : Nat) : Spec :=
  { s with h := { s.h with used := u, epoch := e, out := o, exprs := x } }

/-- `s1` is `s2` up to ghost bookkeeping; the labels `s1` has used beyond those of `s2` are in `U` -/
def Sim (U : List Obj) (s1 s2 : Spec) : Prop :=
  ∃ u e o x, s1 = s2.ghost u e o x ∧ (∀ l, l ∈ s2.h.used → l ∈ u) ∧ (∀ l, l ∈ u → l ∈ s2.h.used ∨ l ∈ U)

theorem reach_ghost (h : Heap) (u e : List Obj) (o : List QOut) (x : Nat) : ∀ (n : Nat) (seen : List Obj),
    Heap.reach { h with used := u, epoch := e, out := o, exprs := x } n seen = h.reach n seen
  | 0, _ => rfl
  | n + 1, seen => by
    simp only [Heap.reach]
    have hs : Heap.succ { h with used := u, epoch := e, out := o, exprs := x } = h.succ := rfl
    rw [hs]
    split
    · rfl
    · exact reach_ghost h u e o x n _

theorem ghost_collect (q : Quirks) (h : Heap) (u e : List Obj) (o : List QOut) (x : Nat) :
    Heap.collect q { h with used := u, epoch := e, out := o, exprs := x } =
      { h.collect q with used := u, epoch := e, out := o, exprs := x } := by
  have hg : Heap.garbage q { h with used := u, epoch := e, out := o, exprs := x } = h.garbage q := by
    unfold Heap.garbage
    simp only [reach_ghost]
    rfl
  unfold Heap.collect
  rw [hg]
  rfl

theorem ghost_prune (s : Spec) (u e : List Obj) (o : List QOut) (x : Nat) :
    (s.ghost u e o x).prune = s.prune.ghost u e o x := rfl

theorem ghost_ensure (s : Spec) (u e : List Obj) (o : List QOut) (x : Nat) (y : HObj) :
    (s.ghost u e o x).ensure y =
      (s.ensure y).ghost u (if e.contains y.obj then e else e ++ [y.obj]) o x := rfl

theorem ghost_write (S : Schema) (h : Heap) (u e : List Obj) (o : List QOut) (x : Nat) (f : Fld) (a b : Obj) :
    Heap.write S { h with used := u, epoch := e, out := o, exprs := x } f a b =
      { h.write S f a b with used := u, epoch := e, out := o, exprs := x } := by
  unfold Heap.write
  split
  · rfl
  · dsimp only; split <;> rfl
  · rfl

/-! the inference reads nothing of the ghost bookkeeping (it only extends the list of registered labels when it wraps
a role taker) -/

def GhostRec (u : List Obj) (o : List QOut) (x : Nat) (rec : Spec → Fld → R → R → Spec) : Prop :=
  ∀ s e f a b, ∃ e', rec (s.ghost u e o x) f a b = (rec s f a b).ghost u e' o x

theorem ghost_foldl {α : Type} (u : List Obj) (o : List QOut) (x : Nat) (fs : Spec → α → Spec)
    (hstep : ∀ s e y, ∃ e', fs (s.ghost u e o x) y = (fs s y).ghost u e' o x) :
    ∀ (l : List α) (s : Spec) (e : List Obj), ∃ e', l.foldl fs (s.ghost u e o x) = (l.foldl fs s).ghost u e' o x
  | [], _, e => ⟨e, rfl⟩
  | y :: l, s, e => by
    obtain ⟨e1, h1⟩ := hstep s e y
    simp only [List.foldl_cons]
    rw [h1]
    exact ghost_foldl u o x fs hstep l _ e1

theorem ghost_record (S : Schema) (s : Spec) (u e : List Obj) (o : List QOut) (x : Nat) (f : Fld) (a b : R)
    (inf : Bool) : (s.ghost u e o x).record S f a b inf = (s.record S f a b inf).ghost u e o x := by
  unfold Spec.record; cases inf <;> rfl

theorem ghost_inferTakerSupers {S : Schema} {u : List Obj} {o : List QOut} {x : Nat} {rec}
    (hrec : GhostRec u o x rec) (s : Spec) (e : List Obj) (f : Fld) (a b : R) :
    ∃ e', Spec.inferTakerSupers S rec (s.ghost u e o x) f a b =
      (Spec.inferTakerSupers S rec s f a b).ghost u e' o x := by
  unfold Spec.inferTakerSupers
  have ht : (s.ghost u e o x).h.takerOf S a.obj a.cls = s.h.takerOf S a.obj a.cls := rfl
  rw [ht]
  split
  · exact ⟨e, rfl⟩
  · cases hx : s.h.takerOf S a.obj a.cls with
    | none => exact ⟨e, rfl⟩
    | some y =>
      simp only
      rw [ghost_ensure]
      exact ghost_foldl u o x _ (fun s e f' => hrec s e f' _ b) _ _ _

theorem ghost_inferSupers {S : Schema} {u : List Obj} {o : List QOut} {x : Nat} {rec}
    (hrec : GhostRec u o x rec) (s : Spec) (e : List Obj) (f : Fld) (a b : R) :
    ∃ e', Spec.inferSupers S rec (s.ghost u e o x) f a b = (Spec.inferSupers S rec s f a b).ghost u e' o x := by
  unfold Spec.inferSupers
  obtain ⟨e1, h1⟩ := ghost_foldl u o x (fun s f' => rec s f' a b) (fun s e f' => hrec s e f' a b) (S.supers f a.cls) s e
  rw [h1]
  exact ghost_inferTakerSupers hrec _ e1 f a b

theorem ghost_inferInverse {S : Schema} {u : List Obj} {o : List QOut} {x : Nat} {rec}
    (hrec : GhostRec u o x rec) (s : Spec) (e : List Obj) (f : Fld) (a b : R) :
    ∃ e', Spec.inferInverse S rec (s.ghost u e o x) f a b = (Spec.inferInverse S rec s f a b).ghost u e' o x := by
  unfold Spec.inferInverse
  have ht : (s.ghost u e o x).h.takerOf S b.obj b.cls = s.h.takerOf S b.obj b.cls := rfl
  rw [ht]
  cases S.inverse f b.cls with
  | some f' => exact hrec s e f' b a
  | none =>
    simp only
    cases S.takerInverse f b.cls with
    | none => exact ⟨e, rfl⟩
    | some f' =>
      simp only
      cases hx : s.h.takerOf S b.obj b.cls with
      | none => exact ⟨e, rfl⟩
      | some y =>
        simp only
        rw [ghost_ensure]
        exact hrec _ _ _ _ _

theorem ghost_inferTransitive {S : Schema} {u : List Obj} {o : List QOut} {x : Nat} {rec}
    (hrec : GhostRec u o x rec) (s : Spec) (e : List Obj) (f : Fld) (a b : R) :
    ∃ e', Spec.inferTransitive S rec (s.ghost u e o x) f a b =
      (Spec.inferTransitive S rec s f a b).ghost u e' o x := by
  unfold Spec.inferTransitive
  split
  · unfold Spec.inferIn Spec.inferOut
    have hed : ∀ (s : Spec) e, (s.ghost u e o x).edges = s.edges := fun _ _ => rfl
    rw [hed]
    obtain ⟨e1, h1⟩ := ghost_foldl u o x (fun s (ed : AEdge) => rec s ed.fld a ed.tgt)
      (fun s e ed => hrec s e ed.fld a ed.tgt)
      ((s.edges.filter (fun ed => ed.src == b && S.desc ed.fld == S.desc f)).reverse) s e
    rw [h1, hed]
    exact ghost_foldl u o x (fun s (ed : AEdge) => rec s ed.fld ed.src b)
      (fun s e ed => hrec s e ed.fld ed.src b) _ _ e1
  · exact ⟨e, rfl⟩

theorem ghost_specAddFact (S : Schema) (u : List Obj) (o : List QOut) (x : Nat) :
    ∀ (fuel : Nat), GhostRec u o x (fun s f a b => specAddFact S fuel s f a b true) ∧
      ∀ s e f a b inf, ∃ e', specAddFact S fuel (s.ghost u e o x) f a b inf =
        (specAddFact S fuel s f a b inf).ghost u e' o x
  | 0 => ⟨fun _ e _ _ _ => ⟨e, rfl⟩, fun _ e _ _ _ _ => ⟨e, rfl⟩⟩
  | fuel + 1 => by
    have ih := (ghost_specAddFact S u o x fuel).1
    have key : ∀ s e f a b inf, ∃ e', specAddFact S (fuel + 1) (s.ghost u e o x) f a b inf =
        (specAddFact S (fuel + 1) s f a b inf).ghost u e' o x := by
      intro s e f a b inf
      unfold specAddFact
      have hex : (s.ghost u e o x).exists_ f a b = s.exists_ f a b := rfl
      rw [hex]
      split
      · exact ⟨e, rfl⟩
      · rw [ghost_record]
        obtain ⟨e1, h1⟩ := ghost_inferSupers (S := S) ih (s.record S f a b inf) e f a b
        rw [h1]
        obtain ⟨e2, h2⟩ := ghost_inferInverse (S := S) ih _ e1 f a b
        rw [h2]
        exact ghost_inferTransitive (S := S) ih _ e2 f a b
    exact ⟨fun s e f a b => key s e f a b true, key⟩

theorem ghost_assert (S : Schema) (s : Spec) (u e : List Obj) (o : List QOut) (x : Nat) (f : Fld) (a b : R) :
    ∃ e', (s.ghost u e o x).assert S f a b = (s.assert S f a b).ghost u e' o x :=
  (ghost_specAddFact S u o x S.fuel).2 s e f a b false

/-- a property of specification states that every primitive step of the inference preserves is preserved by the
inference (`E`: what the ends of the relations it asserts are known to satisfy) -/
theorem foldl_specInv {α : Type} (I : Spec → Prop) (Q : α → Prop) (fs : Spec → α → Spec)
    (hstep : ∀ s y, I s → Q y → I (fs s y)) : ∀ (l : List α) (s : Spec), I s → (∀ y ∈ l, Q y) → I (l.foldl fs s)
  | [], _, h, _ => h
  | y :: l, s, h, hq => by
    simp only [List.foldl_cons]
    exact foldl_specInv I Q fs hstep l _ (hstep s y h (hq y List.mem_cons_self))
      (fun z hz => hq z (List.mem_cons_of_mem _ hz))

theorem takerOf_live' {S : Schema} {h : Heap} {o : Obj} {c : Cls} {y : HObj} (hy : h.takerOf S o c = some y) :
    y ∈ h.live := takerOf_live hy

theorem specAddFact_inv (S : Schema) (I : Spec → Prop) (E : R → Prop)
    (hrecord : ∀ s f a b inf, I s → E a → E b → I (s.record S f a b inf))
    (hensure : ∀ s y, I s → y ∈ s.h.live → I (s.ensure y) ∧ E ⟨y.obj, y.cls⟩)
    (hedge : ∀ s e, I s → e ∈ s.edges → E e.src ∧ E e.tgt) :
    ∀ (fuel : Nat) (s : Spec) (f : Fld) (a b : R) (inf : Bool), I s → E a → E b →
      I (specAddFact S fuel s f a b inf)
  | 0, _, _, _, _, _, h, _, _ => h
  | fuel + 1, s, f, a, b, inf, h, ha, hb => by
    unfold specAddFact
    split
    · exact h
    have hrec : ∀ s f a b, I s → E a → E b → I ((fun s f a b => specAddFact S fuel s f a b true) s f a b) :=
      fun s f a b h ha hb => specAddFact_inv S I E hrecord hensure hedge fuel s f a b true h ha hb
    have h1 := hrecord s f a b inf h ha hb
    have h2 : I (Spec.inferSupers S (fun s f a b => specAddFact S fuel s f a b true) (s.record S f a b inf) f a b) := by
      unfold Spec.inferSupers
      have hd := foldl_specInv I (fun _ => True) (fun s f' => specAddFact S fuel s f' a b true)
        (fun s f' hs _ => hrec s f' a b hs ha hb) (S.supers f a.cls) _ h1 (fun _ _ => trivial)
      generalize (S.supers f a.cls).foldl (fun s f' => specAddFact S fuel s f' a b true) (s.record S f a b inf) = s1
        at hd ⊢
      unfold Spec.inferTakerSupers
      split
      · exact hd
      · split
        · exact hd
        · rename_i y hy
          have he := hensure s1 y hd (takerOf_live hy)
          exact foldl_specInv I (fun _ => True) _ (fun s f' hs _ => hrec s f' _ b hs he.2 hb) _ _ he.1
            (fun _ _ => trivial)
    generalize Spec.inferSupers S (fun s f a b => specAddFact S fuel s f a b true) (s.record S f a b inf) f a b = s2
      at h2 ⊢
    have h3 : I (Spec.inferInverse S (fun s f a b => specAddFact S fuel s f a b true) s2 f a b) := by
      unfold Spec.inferInverse
      split
      · exact hrec _ _ _ _ h2 hb ha
      · split
        · exact h2
        · split
          · exact h2
          · rename_i y hy
            have he := hensure s2 y h2 (takerOf_live hy)
            exact hrec _ _ _ _ he.1 he.2 ha
    generalize Spec.inferInverse S (fun s f a b => specAddFact S fuel s f a b true) s2 f a b = s3 at h3 ⊢
    unfold Spec.inferTransitive
    split
    · have h4 : I (Spec.inferOut S (fun s f a b => specAddFact S fuel s f a b true) s3 f a b) := by
        unfold Spec.inferOut
        refine foldl_specInv I (fun (e : AEdge) => E e.tgt) _ (fun s e hs he => hrec s e.fld a e.tgt hs ha he) _ _ h3 ?_
        intro e he
        exact (hedge s3 e h3 (List.mem_filter.1 (List.mem_reverse.1 he)).1).2
      generalize Spec.inferOut S (fun s f a b => specAddFact S fuel s f a b true) s3 f a b = s4 at h4 ⊢
      unfold Spec.inferIn
      refine foldl_specInv I (fun (e : AEdge) => E e.src) _ (fun s e hs he => hrec s e.fld e.src b hs he hb) _ _ h4 ?_
      intro e he
      exact (hedge s4 e h4 (List.mem_filter.1 (List.mem_reverse.1 he)).1).1
    · exact h3

/-- the inference only writes field contents and the ghost list of registered labels -/
theorem assert_heap (S : Schema) (s : Spec) (f : Fld) (a b : R) :
    (s.assert S f a b).h.live = s.h.live ∧ (s.assert S f a b).h.used = s.h.used ∧
    (s.assert S f a b).h.held = s.h.held ∧ (s.assert S f a b).h.qvars = s.h.qvars ∧
    (s.assert S f a b).h.out = s.h.out ∧ (s.assert S f a b).h.exprs = s.h.exprs := by
  refine specAddFact_inv S (fun s' => s'.h.live = s.h.live ∧ s'.h.used = s.h.used ∧ s'.h.held = s.h.held ∧
      s'.h.qvars = s.h.qvars ∧ s'.h.out = s.h.out ∧ s'.h.exprs = s.h.exprs) (fun _ => True)
    ?_ ?_ (fun _ _ _ _ => ⟨trivial, trivial⟩) S.fuel s f a b false ⟨rfl, rfl, rfl, rfl, rfl, rfl⟩ trivial trivial
  · intro s' f a b inf h _ _
    unfold Spec.record
    cases inf <;> exact h
  · intro s' y h _
    exact ⟨h, trivial⟩

theorem ghost_dropQuery (q : Quirks) (h : Heap) (u e : List Obj) (o : List QOut) (x : Nat) (k : Nat) :
    Heap.dropQuery q { h with used := u, epoch := e, out := o, exprs := x } k =
      { h.dropQuery q k with used := u, epoch := e, out := o,
                             exprs := if q.exprTableLeak then x else x - 1 } := by
  unfold Heap.dropQuery
  split <;> rfl

theorem dropQuery_used (q : Quirks) (h : Heap) (k : Nat) : (h.dropQuery q k).used = h.used := by
  unfold Heap.dropQuery; split <;> rfl

/-- only `new` uses up a label -/
theorem specStep_used (q : Quirks) (S : Schema) (s : Spec) (op : Op) (hop : ∀ o c pid, op ≠ .new o c pid)
    (hopR : ∀ o c pid e, op ≠ .newrole o c pid e) :
    (specStep q S s op).h.used = s.h.used := by
  cases op with
  | new o c pid => exact absurd rfl (hop o c pid)
  | newrole o c pid e => exact absurd rfl (hopR o c pid e)
  | drop l => rfl
  | sweep => rfl
  | clear => rfl
  | rel f a b =>
    simp only [specStep]
    split
    · split <;> rfl
    · rfl
  | set f a b =>
    simp only [specStep]
    split
    · split
      · show (Spec.assert S _ f _ _).h.used = s.h.used
        rw [(assert_heap S _ f _ _).2.1]
        exact write_used _ _ _ _ _
      · show (Heap.write S (Spec.assert S _ f _ _).h f a b).used = _
        rw [write_used, (assert_heap S _ f _ _).2.1]; rfl
    · rfl
  | mkq k c dom =>
    simp only [specStep]
    split <;> rfl
  | evalq k =>
    simp only [specStep]
    split <;> rfl
  | dropq k =>
    simp only [specStep]
    split
    · rfl
    · split
      · rfl
      · show (Heap.collect q _).used = _
        exact dropQuery_used _ _ _

/-- one operation preserves "equal up to ghost bookkeeping", provided a new instance does not re-use a label of `U` -/
theorem specStep_sim (q : Quirks) (S : Schema) (U : List Obj) (s1 s2 : Spec) (op : Op) (h : Sim U s1 s2)
    (hop : ∀ o c pid, op = .new o c pid → o ∉ U) (hopR : ∀ o c pid t, op = .newrole o c pid t → o ∉ U) :
    Sim U (specStep q S s1 op) (specStep q S s2 op) := by
  obtain ⟨u, e, o, x, rfl, hu1, hu2⟩ := h
  by_cases hnewR : ∃ l c pid t, op = .newrole l c pid t
  · obtain ⟨l, c, pid, t, rfl⟩ := hnewR
    have hl : l ∉ U := hopR l c pid t rfl
    simp only [specStep]
    have hc : (s2.ghost u e o x).h.used.contains l = s2.h.used.contains l := by
      rw [Bool.eq_iff_iff]; simp only [List.contains_iff_mem]
      exact ⟨fun h => (hu2 l h).resolve_right hl, hu1 l⟩
    have hlive : (s2.ghost u e o x).h.live = s2.h.live := rfl
    have hisl : (s2.ghost u e o x).h.isLive t = s2.h.isLive t := rfl
    rw [hc, hlive, hisl]
    split
    · exact ⟨u, e, o, x, rfl, hu1, hu2⟩
    · refine ⟨u ++ [l], e ++ [l], o, x, rfl, ?_, ?_⟩
      · intro l'; simp only [List.mem_append, List.mem_singleton]
        rintro (h | h)
        · exact Or.inl (hu1 _ h)
        · exact Or.inr h
      · intro l'; simp only [List.mem_append, List.mem_singleton]
        rintro (h | h)
        · rcases hu2 _ h with h | h
          · exact Or.inl (Or.inl h)
          · exact Or.inr h
        · exact Or.inl (Or.inr h)
  by_cases hnew : ∃ l c pid, op = .new l c pid
  swap
  · -- not `new`: the labels in use do not change
    have hused := specStep_used q S s2 op (fun l c pid h => hnew ⟨l, c, pid, h⟩)
      (fun l c pid t h => hnewR ⟨l, c, pid, t, h⟩)
    suffices ∃ e' o' x', specStep q S (s2.ghost u e o x) op = (specStep q S s2 op).ghost u e' o' x' by
      obtain ⟨e', o', x', h⟩ := this
      exact ⟨u, e', o', x', h, by rw [hused]; exact hu1, by rw [hused]; exact hu2⟩
    cases op with
    | new l c pid => exact absurd ⟨l, c, pid, rfl⟩ hnew
    | newrole l c pid t => exact absurd ⟨l, c, pid, t, rfl⟩ hnewR
    | drop l =>
      refine ⟨e, o, x, ?_⟩
      simp only [specStep]
      show ({ s2 with h := Heap.collect q { ({ s2.h with held := s2.h.held.filter (fun x => x != l) } : Heap) with
        used := u, epoch := e, out := o, exprs := x } } : Spec).prune = _
      rw [ghost_collect]; rfl
    | sweep => exact ⟨e, o, x, rfl⟩
    | clear => exact ⟨[], o, x, rfl⟩
    | rel f a b =>
      simp only [specStep]
      have hfind : ∀ l, (s2.ghost u e o x).h.find l = s2.h.find l := fun _ => rfl
      rw [hfind, hfind]
      split
      · rename_i xa xb _ _
        rw [ghost_ensure, ghost_ensure]
        generalize (if (if e.contains xa.obj = true then e else e ++ [xa.obj]).contains xb.obj = true then
          (if e.contains xa.obj = true then e else e ++ [xa.obj])
          else (if e.contains xa.obj = true then e else e ++ [xa.obj]) ++ [xb.obj]) = e2
        have hex : ∀ (s : Spec) r1 r2, (s.ghost u e2 o x).exists_ f r1 r2 = s.exists_ f r1 r2 := fun _ _ _ => rfl
        rw [hex]
        split
        · exact ⟨e2, o, x, rfl⟩
        · exact ⟨e2, o, x, rfl⟩
      · exact ⟨e, o, x, rfl⟩
    | set f a b =>
      simp only [specStep]
      have hfind : ∀ l, (s2.ghost u e o x).h.find l = s2.h.find l := fun _ => rfl
      rw [hfind, hfind]
      split
      · rename_i xa xb _ _
        split
        · -- scalar
          have h0 : ({ s2.ghost u e o x with h := (s2.ghost u e o x).h.write S f a b } : Spec) =
              ({ s2 with h := s2.h.write S f a b } : Spec).ghost u e o x := by
            show ({ s2 with h := Heap.write S { s2.h with used := u, epoch := e, out := o, exprs := x } f a b } : Spec) = _
            rw [ghost_write]; rfl
          rw [h0, ghost_ensure, ghost_ensure]
          generalize (if (if e.contains xa.obj = true then e else e ++ [xa.obj]).contains xb.obj = true then
            (if e.contains xa.obj = true then e else e ++ [xa.obj])
            else (if e.contains xa.obj = true then e else e ++ [xa.obj]) ++ [xb.obj]) = e1
          obtain ⟨e2, hga⟩ := ghost_assert S ((({ s2 with h := s2.h.write S f a b } : Spec).ensure xa).ensure xb) u e1 o x f
            ⟨xa.obj, xa.cls⟩ ⟨xb.obj, xb.cls⟩
          rw [hga]
          refine ⟨e2, o, x, ?_⟩
          generalize ((({ s2 with h := s2.h.write S f a b } : Spec).ensure xa).ensure xb).assert S f
            ⟨xa.obj, xa.cls⟩ ⟨xb.obj, xb.cls⟩ = B
          show ({ B with h := Heap.collect q { B.h with used := u, epoch := e2, out := o, exprs := x } } : Spec).prune = _
          rw [ghost_collect]; rfl
        · -- containers
          rw [ghost_ensure, ghost_ensure]
          generalize (if (if e.contains xa.obj = true then e else e ++ [xa.obj]).contains xb.obj = true then
            (if e.contains xa.obj = true then e else e ++ [xa.obj])
            else (if e.contains xa.obj = true then e else e ++ [xa.obj]) ++ [xb.obj]) = e1
          obtain ⟨e2, hga⟩ := ghost_assert S ((s2.ensure xa).ensure xb) u e1 o x f ⟨xa.obj, xa.cls⟩ ⟨xb.obj, xb.cls⟩
          rw [hga]
          refine ⟨e2, o, x, ?_⟩
          generalize ((s2.ensure xa).ensure xb).assert S f ⟨xa.obj, xa.cls⟩ ⟨xb.obj, xb.cls⟩ = B
          show ({ B with h := Heap.collect q (Heap.write S { B.h with used := u, epoch := e2, out := o, exprs := x } f a b) } : Spec).prune = _
          rw [ghost_write, ghost_collect]; rfl
      · exact ⟨e, o, x, rfl⟩
    | mkq k c dom =>
      simp only [specStep]
      have hq : (s2.ghost u e o x).h.qvars = s2.h.qvars := rfl
      rw [hq]
      split
      · exact ⟨e, o, x, rfl⟩
      · exact ⟨e, o, x + 1, rfl⟩
    | evalq k =>
      simp only [specStep]
      have hq : (s2.ghost u e o x).h.qvars = s2.h.qvars := rfl
      rw [hq]
      split
      · exact ⟨e, o, x, rfl⟩
      · rename_i v _
        refine ⟨e, o ++ [⟨k, s2.evalQuery q S v,
          if v.explicit then s2.evalQuery q S v else (s2.ghost u e o x).h.expected S v.cls⟩], x, ?_⟩
        show ({ s2 with h := Heap.collect q { s2.h.recordEval S k v (s2.evalQuery q S v) with
          used := u, epoch := e, out := _, exprs := x } } : Spec).prune = _
        rw [ghost_collect]; rfl
    | dropq k =>
      simp only [specStep]
      have hq : (s2.ghost u e o x).h.qvars = s2.h.qvars := rfl
      rw [hq]
      split
      · exact ⟨e, o, x, rfl⟩
      · split
        · exact ⟨e, o, x, rfl⟩
        · refine ⟨e, o, if q.exprTableLeak then x else x - 1, ?_⟩
          show ({ s2 with h := Heap.collect q (Heap.dropQuery q { s2.h with used := u, epoch := e, out := o, exprs := x } k) } : Spec).prune = _
          rw [ghost_dropQuery, ghost_collect]; rfl
  obtain ⟨l, c, pid, rfl⟩ := hnew
  have hl : l ∉ U := hop l c pid rfl
  simp only [specStep]
  have hc : (s2.ghost u e o x).h.used.contains l = s2.h.used.contains l := by
    rw [Bool.eq_iff_iff]; simp only [List.contains_iff_mem]
    exact ⟨fun h => (hu2 l h).resolve_right hl, hu1 l⟩
  have hlive : (s2.ghost u e o x).h.live = s2.h.live := rfl
  rw [hc, hlive]
  split
  · exact ⟨u, e, o, x, rfl, hu1, hu2⟩
  · refine ⟨u ++ [l], e ++ [l], o, x, rfl, ?_, ?_⟩
    · intro l'; simp only [List.mem_append, List.mem_singleton]
      rintro (h | h)
      · exact Or.inl (hu1 _ h)
      · exact Or.inr h
    · intro l'; simp only [List.mem_append, List.mem_singleton]
      rintro (h | h)
      · rcases hu2 _ h with h | h
        · exact Or.inl (Or.inl h)
        · exact Or.inr h
      · exact Or.inl (Or.inr h)


theorem foldl_specStep_sim (q : Quirks) (S : Schema) (U : List Obj) : ∀ (ops : List Op) (s1 s2 : Spec),
    Sim U s1 s2 → (∀ o c pid, Op.new o c pid ∈ ops → o ∉ U) → (∀ o c pid t, Op.newrole o c pid t ∈ ops → o ∉ U) →
    Sim U (ops.foldl (specStep q S) s1) (ops.foldl (specStep q S) s2)
  | [], _, _, h, _, _ => h
  | op :: ops, s1, s2, h, hf, hfR => by
    simp only [List.foldl_cons]
    exact foldl_specStep_sim q S U ops _ _
      (specStep_sim q S U s1 s2 op h (fun o c pid he => hf o c pid (he ▸ List.mem_cons_self))
        (fun o c pid t he => hfR o c pid t (he ▸ List.mem_cons_self)))
      (fun o c pid hm => hf o c pid (List.mem_cons_of_mem _ hm))
      (fun o c pid t hm => hfR o c pid t (List.mem_cons_of_mem _ hm))

/-- nothing of a history is left at the level of objects: every instance it created is dead, no reference, field
content, query object, registry entry or relation remains -/
def Garbage (s : Spec) : Prop :=
  s.h.live = [] ∧ s.h.held = [] ∧ s.h.fields = [] ∧ s.h.qvars = [] ∧ s.reg = [] ∧ s.edges = []

theorem sim_of_garbage (s : Spec) (hg : Garbage s) : Sim s.h.used s Spec.init := by
  obtain ⟨h1, h2, h3, h4, h5, h6⟩ := hg
  refine ⟨s.h.used, s.h.epoch, s.h.out, s.h.exprs, ?_, by simp [Spec.init, Heap.empty], fun l hl => Or.inr hl⟩
  obtain ⟨⟨live, used, held, fields, qvars, epoch, out, exprs⟩, reg, edges⟩ := s
  simp only at h1 h2 h3 h4 h5 h6
  subst h1 h2 h3 h4 h5 h6
  rfl

theorem specRun_append (q : Quirks) (S : Schema) (p s : List Op) :
    specRun q S (p ++ s) = s.foldl (specStep q S) (specRun q S p) := by
  unfold specRun; rw [List.foldl_append]

/-- the specification forgets a garbage prefix -/
theorem spec_forgets (q : Quirks) (S : Schema) (p s : List Op) (hg : Garbage (specRun q S p))
    (hfresh : ∀ o c pid, Op.new o c pid ∈ s → o ∉ (specRun q S p).h.used)
    (hfreshR : ∀ o c pid t, Op.newrole o c pid t ∈ s → o ∉ (specRun q S p).h.used) :
    (specRun q S (p ++ s)).relObs = (specRun q S s).relObs := by
  have h := foldl_specStep_sim q S _ s _ _ (sim_of_garbage _ hg) hfresh hfreshR
  rw [specRun_append]
  obtain ⟨u, e, o, x, heq, _, _⟩ := h
  rw [heq]
  rfl

/-- **C14_fresh_equiv.** With the repaired `remove_node` (and dead ends skipped by the inference): for every
garbage-producing prefix `p` (nothing of it is left at the level of objects), every later history `s` on fresh
labels — creations, relation assertions directly or through managed fields, drops, sweeps, queries — and every
pair of valid node-index allocators and `id()` assignments, the relations among live instances and the field
contents after `p ++ s` are those of `s` run on a fresh graph. -/
theorem C14_fresh_equiv {σ' : Type} (q : Quirks) (hq1 : q.staleRelIndex = false) (hq2 : q.deadEndpointRaises = false)
    (S : Schema) (a : Alloc σ) (ha : a.Valid) (a' : Alloc σ') (ha' : a'.Valid) (p s : List Op)
    (hg : Garbage (specRun q S p))
    (hfresh : ∀ o c pid, Op.new o c pid ∈ s → o ∉ (specRun q S p).h.used)
    (hfreshR : ∀ o c pid t, Op.newrole o c pid t ∈ s → o ∉ (specRun q S p).h.used) :
    (run q S a (p ++ s)).relObs = (run q S a' s).relObs := by
  rw [(C14_model_eq_spec q S a ha (p ++ s) ⟨Or.inl hq1, Or.inl hq2⟩).2,
    (C14_model_eq_spec q S a' ha' s ⟨Or.inl hq1, Or.inl hq2⟩).2]
  exact spec_forgets q S p s hg hfresh hfreshR

/-- the garbage condition can be read off the model as well (same statement, through `C14_model_eq_spec`) -/
theorem garbage_of_model (q : Quirks) (hq1 : q.staleRelIndex = false) (hq2 : q.deadEndpointRaises = false)
    (S : Schema) (a : Alloc σ) (ha : a.Valid) (p : List Op) (hg : Garbage (run q S a p).abs) :
    Garbage (specRun q S p) := by
  rw [← (C14_model_eq_spec q S a ha p ⟨Or.inl hq1, Or.inl hq2⟩).1]; exact hg


/-! ### "every instance of the prefix is dead" is enough: the specification only mentions live instances -/

/-- field contents and relations only mention instances for which `L` holds -/
def RelOK (L : Obj → Bool) (fields : List FEntry) (edges : List AEdge) : Prop :=
  (∀ e ∈ fields, L e.owner = true) ∧ (∀ e ∈ edges, L e.src.obj = true ∧ L e.tgt.obj = true)

/-- everything a specification state mentions is alive -/
structure SpecInv (s : Spec) : Prop where
  held : ∀ o ∈ s.h.held, s.h.isLive o = true
  rel : RelOK s.h.isLive (s.h.fields) (s.edges)
  reg : ∀ r ∈ s.reg, s.h.isLive r.obj = true

theorem reach_superset (h : Heap) : ∀ (n : Nat) (seen : List Obj), ∀ o ∈ seen, o ∈ h.reach n seen
  | 0, _, _, ho => ho
  | n + 1, seen, o, ho => by
    simp only [Heap.reach]
    split
    · exact ho
    · exact reach_superset h n _ o (List.mem_append_left _ ho)

theorem collect_isLive (q : Quirks) (h : Heap) (o : Obj) (hl : h.isLive o = true)
    (hr : o ∈ h.reach (h.live.length + 1) (h.roots q)) : (h.collect q).isLive o = true := by
  unfold Heap.collect
  rw [kill_isLive, hl]
  simp only [Heap.garbage, Bool.true_and, Bool.not_eq_eq_eq_not, Bool.not_true]
  rw [← Bool.not_eq_true, List.contains_iff_mem]
  simp only [List.mem_map, List.mem_filter, Bool.not_eq_eq_eq_not, Bool.not_true, not_exists, not_and]
  rintro x ⟨_, hx⟩ rfl
  rw [← Bool.not_eq_true, List.contains_iff_mem] at hx
  exact hx hr

/-- collection followed by pruning keeps the specification state closed under "alive" -/
theorem SpecInv.collectPrune {s : Spec} (q : Quirks) (hI : SpecInv s) (h1 : Heap) (hlive : h1.live = s.h.live)
    (hheld : ∀ o ∈ h1.held, o ∈ s.h.held) (hfields : h1.fields = s.h.fields) :
    SpecInv ({ s with h := h1.collect q } : Spec).prune := by
  have hisl : h1.isLive = s.h.isLive := by funext o; simp [Heap.isLive, hlive]
  constructor
  · intro o ho
    have ho' : o ∈ h1.held := ho
    apply collect_isLive q h1 o (by rw [hisl]; exact hI.held o (hheld o ho'))
    apply reach_superset
    unfold Heap.roots
    exact List.mem_append_left _ ho'
  · constructor
    · intro e he
      have he' : e ∈ (h1.collect q).fields := he
      unfold Heap.collect Heap.kill at he'
      simp only [List.mem_filter] at he'
      show (h1.collect q).isLive e.owner = true
      unfold Heap.collect
      rw [kill_isLive, hisl, hI.rel.1 e (hfields ▸ he'.1)]
      simpa using he'.2
    · intro e he
      have he' := (List.mem_filter.1 he).2
      simp only [Bool.and_eq_true] at he'
      exact he'
  · intro r hr
    have hr' := List.mem_filter.1 hr
    exact hr'.2

theorem isLive_mono {h h' : Heap} (hsub : ∀ x ∈ h.live, x ∈ h'.live) (o : Obj) (ho : h.isLive o = true) :
    h'.isLive o = true := by
  rw [isLive_iff] at ho ⊢
  obtain ⟨x, hx, rfl⟩ := ho
  exact ⟨x, hsub x hx, rfl⟩

theorem SpecInv.ofHeap {s : Spec} (hI : SpecInv s) (h' : Heap) (hl : h'.live = s.h.live)
    (hh : ∀ o ∈ h'.held, o ∈ s.h.held) (hf : h'.fields = s.h.fields) : SpecInv ({ s with h := h' } : Spec) := by
  have hisl : h'.isLive = s.h.isLive := by funext o; simp [Heap.isLive, hl]
  constructor
  · intro o ho; show h'.isLive o = true; rw [hisl]; exact hI.held o (hh o ho)
  · show RelOK h'.isLive (h'.fields) (s.edges)
    rw [hisl, hf]; exact hI.rel
  · intro r hr; show h'.isLive r.obj = true; rw [hisl]; exact hI.reg r hr

theorem SpecInv.ensure {s : Spec} (hI : SpecInv s) (x : HObj) (hx : x ∈ s.h.live) : SpecInv (s.ensure x) := by
  have h1 := hI.ofHeap (s.h.register x.obj) rfl (fun _ h => h) rfl
  constructor
  · exact h1.held
  · exact h1.rel
  · intro r hr
    have hr' : r ∈ (if s.reg.any (fun r => r.obj == x.obj) then s.reg else s.reg ++ [⟨x.obj, x.cls⟩]) := hr
    show (s.h.register x.obj).isLive r.obj = true
    rw [register_isLive]
    split at hr'
    · exact hI.reg r hr'
    · rcases List.mem_append.1 hr' with h | h
      · exact hI.reg r h
      · simp only [List.mem_singleton] at h; subst h
        exact (isLive_iff _ _).2 ⟨x, hx, rfl⟩

theorem SpecInv.record {s : Spec} (hI : SpecInv s) (S : Schema) (f : Fld) (a b : R) (inf : Bool)
    (ha : s.h.isLive a.obj = true) (hb : s.h.isLive b.obj = true) : SpecInv (s.record S f a b inf) := by
  have hedges : ∀ e ∈ s.edges ++ [(⟨f, a, b, inf⟩ : AEdge)],
      s.h.isLive e.src.obj = true ∧ s.h.isLive e.tgt.obj = true := by
    intro e he
    rcases List.mem_append.1 he with h1 | h1
    · exact hI.rel.2 e h1
    · simp only [List.mem_singleton] at h1; subst h1; exact ⟨ha, hb⟩
  unfold Spec.record
  cases inf with
  | false => exact ⟨hI.held, ⟨hI.rel.1, hedges⟩, hI.reg⟩
  | true =>
    have hisl : (s.h.updateValue S f a.obj b.obj).isLive = s.h.isLive := by
      funext o; simp [Heap.isLive, Heap.updateValue]
    constructor
    · intro o ho
      show (s.h.updateValue S f a.obj b.obj).isLive o = true
      rw [hisl]; exact hI.held o ho
    · show RelOK (s.h.updateValue S f a.obj b.obj).isLive (updateFields S s.h.fields f a.obj b.obj)
        (s.edges ++ [⟨f, a, b, true⟩])
      rw [hisl]
      refine ⟨?_, hedges⟩
      intro e he
      unfold updateFields at he
      split at he
      · rcases List.mem_append.1 he with h1 | h1
        · exact hI.rel.1 e (List.mem_filter.1 h1).1
        · simp only [List.mem_singleton] at h1; subst h1; exact ha
      · split at he
        · exact hI.rel.1 e he
        · rcases List.mem_append.1 he with h1 | h1
          · exact hI.rel.1 e h1
          · simp only [List.mem_singleton] at h1; subst h1; exact ha
    · intro r hr
      show (s.h.updateValue S f a.obj b.obj).isLive r.obj = true
      rw [hisl]; exact hI.reg r hr

theorem SpecInv.assert {s : Spec} (hI : SpecInv s) (S : Schema) (f : Fld) (a b : R) (ha : s.h.isLive a.obj = true)
    (hb : s.h.isLive b.obj = true) : SpecInv (s.assert S f a b) := by
  have := specAddFact_inv S (fun s' => SpecInv s' ∧ s'.h.live = s.h.live) (fun r => s.h.isLive r.obj = true)
    (by
      intro s' f a b inf h ha hb
      have hisl : s'.h.isLive = s.h.isLive := by funext o; simp [Heap.isLive, h.2]
      refine ⟨h.1.record S f a b inf (by rw [hisl]; exact ha) (by rw [hisl]; exact hb), ?_⟩
      unfold Spec.record; cases inf <;> exact h.2)
    (by
      intro s' y h hy
      refine ⟨⟨h.1.ensure y hy, h.2⟩, ?_⟩
      rw [isLive_iff]; exact ⟨y, h.2 ▸ hy, rfl⟩)
    (by
      intro s' e h he
      have hisl : s'.h.isLive = s.h.isLive := by funext o; simp [Heap.isLive, h.2]
      rw [← hisl]; exact h.1.rel.2 e he)
    S.fuel s f a b false ⟨hI, rfl⟩ ha hb
  exact this.1

theorem ensure_live (s : Spec) (x : HObj) : (s.ensure x).h.live = s.h.live := rfl

theorem SpecInv.write {s : Spec} (hI : SpecInv s) (S : Schema) (f : Fld) (a b : Obj) (ha : s.h.isLive a = true) :
    SpecInv ({ s with h := s.h.write S f a b } : Spec) := by
  have hisl : (s.h.write S f a b).isLive = s.h.isLive := by funext o; simp [Heap.isLive]
  constructor
  · intro o ho
    show (s.h.write S f a b).isLive o = true
    rw [hisl]; apply hI.held
    have : (s.h.write S f a b).held = s.h.held := by unfold Heap.write; split <;> (try split) <;> rfl
    exact this ▸ ho
  · show RelOK (s.h.write S f a b).isLive ((s.h.write S f a b).fields) (s.edges)
    rw [hisl]
    refine ⟨?_, hI.rel.2⟩
    intro e he
    unfold Heap.write at he
    split at he
    · rcases List.mem_append.1 he with h1 | h1
      · exact hI.rel.1 e (List.mem_filter.1 h1).1
      · simp only [List.mem_singleton] at h1; subst h1; exact ha
    · try dsimp only at he
      split at he
      · exact hI.rel.1 e he
      · rcases List.mem_append.1 he with h1 | h1
        · exact hI.rel.1 e h1
        · simp only [List.mem_singleton] at h1; subst h1; exact ha
    · rcases List.mem_append.1 he with h1 | h1
      · exact hI.rel.1 e h1
      · simp only [List.mem_singleton] at h1; subst h1; exact ha
  · intro r hr; show (s.h.write S f a b).isLive r.obj = true; rw [hisl]; exact hI.reg r hr

theorem specInv_init : SpecInv Spec.init := by
  constructor <;> simp [Spec.init, Heap.empty, RelOK]

/-- every operation keeps the specification state closed under "alive" -/
theorem specStep_inv (q : Quirks) (S : Schema) (s : Spec) (op : Op) (hI : SpecInv s) : SpecInv (specStep q S s op) := by
  cases op with
  | new o c pid =>
    simp only [specStep]
    split
    · exact hI
    · have hsub : ∀ x ∈ s.h.live, x ∈ s.h.live ++ [(⟨o, c, pid⟩ : HObj)] := fun x hx => List.mem_append_left _ hx
      constructor
      · intro o' ho'
        rcases List.mem_append.1 ho' with h | h
        · exact isLive_mono hsub _ (hI.held o' h)
        · simp only [List.mem_singleton] at h; subst h
          exact (isLive_iff _ _).2 ⟨⟨o', c, pid⟩, by simp, rfl⟩
      · exact ⟨fun e he => isLive_mono hsub _ (hI.rel.1 e he),
          fun e he => ⟨isLive_mono hsub _ (hI.rel.2 e he).1, isLive_mono hsub _ (hI.rel.2 e he).2⟩⟩
      · intro r hr
        rcases List.mem_append.1 hr with h | h
        · exact isLive_mono hsub _ (hI.reg r h)
        · simp only [List.mem_singleton] at h; subst h
          exact (isLive_iff _ _).2 ⟨⟨o, c, pid⟩, by simp, rfl⟩
  | drop l =>
    exact hI.collectPrune q { s.h with held := s.h.held.filter (fun x => x != l) } rfl
      (fun o ho => (List.mem_filter.1 ho).1) rfl
  | sweep => exact hI
  | clear =>
    constructor
    · exact hI.held
    · exact ⟨hI.rel.1, by intro e he; simp [specStep] at he⟩
    · simp [specStep]
  | rel f a b =>
    simp only [specStep]
    split
    · rename_i xa xb hfa hfb
      have hxa := find_some hfa
      have hxb := find_some hfb
      have h2 := (hI.ensure xa hxa.1).ensure xb hxb.1
      split
      · exact h2
      · constructor
        · exact h2.held
        · refine ⟨h2.rel.1, ?_⟩
          intro e he
          rcases List.mem_append.1 he with h | h
          · exact h2.rel.2 e h
          · simp only [List.mem_singleton] at h; subst h
            exact ⟨(isLive_iff _ _).2 ⟨xa, hxa.1, rfl⟩, (isLive_iff _ _).2 ⟨xb, hxb.1, rfl⟩⟩
        · exact h2.reg
    · exact hI
  | set f a b =>
    simp only [specStep]
    split
    · rename_i xa xb hfa hfb
      have hxa := find_some hfa
      have hxb := find_some hfb
      split
      · have h1 := hI.write S f a b ((isLive_iff _ _).2 ⟨xa, hxa.1, hxa.2⟩)
        have hla : xa ∈ (Heap.write S s.h f a b).live := by rw [write_live]; exact hxa.1
        have hlb : xb ∈ (Heap.write S s.h f a b).live := by rw [write_live]; exact hxb.1
        have h2 := (h1.ensure xa hla).ensure xb hlb
        have h3 := h2.assert S f ⟨xa.obj, xa.cls⟩ ⟨xb.obj, xb.cls⟩
          ((isLive_iff _ _).2 ⟨xa, hla, rfl⟩) ((isLive_iff _ _).2 ⟨xb, hlb, rfl⟩)
        exact h3.collectPrune q _ rfl (fun _ h => h) rfl
      · have h2 := (hI.ensure xa hxa.1).ensure xb hxb.1
        have h3 := h2.assert S f ⟨xa.obj, xa.cls⟩ ⟨xb.obj, xb.cls⟩
          ((isLive_iff _ _).2 ⟨xa, hxa.1, rfl⟩) ((isLive_iff _ _).2 ⟨xb, hxb.1, rfl⟩)
        have h4 := h3.write S f a b ((isLive_iff _ _).2 ⟨xa, by rw [(assert_heap S _ f _ _).1]; exact hxa.1, hxa.2⟩)
        exact h4.collectPrune q _ rfl (fun _ h => h) rfl
    · exact hI
  | mkq k c dom =>
    simp only [specStep]
    split
    · exact hI
    · exact hI.ofHeap _ rfl (fun _ h => h) rfl
  | evalq k =>
    simp only [specStep]
    split
    · exact hI
    · exact hI.collectPrune q _ rfl (fun _ h => h) rfl
  | dropq k =>
    simp only [specStep]
    split
    · exact hI
    · split
      · exact hI
      · refine hI.collectPrune q _ ?_ ?_ ?_ <;> unfold Heap.dropQuery <;> split <;> first | rfl | exact fun _ h => h
  | newrole o c pid t =>
    simp only [specStep]
    split
    · exact hI
    · have hsub : ∀ x ∈ s.h.live, x ∈ s.h.live ++ [(⟨o, c, pid⟩ : HObj)] := fun x hx => List.mem_append_left _ hx
      have hnew : Heap.isLive { s.h with live := s.h.live ++ [(⟨o, c, pid⟩ : HObj)] } o = true :=
        (isLive_iff _ _).2 ⟨⟨o, c, pid⟩, by simp, rfl⟩
      constructor
      · intro o' ho'
        rcases List.mem_append.1 ho' with h | h
        · exact isLive_mono hsub _ (hI.held o' h)
        · simp only [List.mem_singleton] at h; subst h
          exact (isLive_iff _ _).2 ⟨⟨o', c, pid⟩, by simp, rfl⟩
      · refine ⟨?_, fun e he => ⟨isLive_mono hsub _ (hI.rel.2 e he).1, isLive_mono hsub _ (hI.rel.2 e he).2⟩⟩
        intro e he
        have he' : e ∈ (match S.takerFld c with
                        | some tf => s.h.fields ++ [(⟨o, tf, t⟩ : FEntry)]
                        | none => s.h.fields) := he
        split at he'
        · rcases List.mem_append.1 he' with h | h
          · exact isLive_mono hsub _ (hI.rel.1 e h)
          · simp only [List.mem_singleton] at h; subst h
            exact (isLive_iff _ _).2 ⟨⟨o, c, pid⟩, by simp, rfl⟩
        · exact isLive_mono hsub _ (hI.rel.1 e he')
      · intro r hr
        rcases List.mem_append.1 hr with h | h
        · exact isLive_mono hsub _ (hI.reg r h)
        · simp only [List.mem_singleton] at h; subst h
          exact (isLive_iff _ _).2 ⟨⟨o, c, pid⟩, by simp, rfl⟩

theorem specRun_inv (q : Quirks) (S : Schema) (ops : List Op) : SpecInv (specRun q S ops) := by
  unfold specRun
  have : ∀ (l : List Op) (s : Spec), SpecInv s → SpecInv (l.foldl (specStep q S) s) := by
    intro l; induction l with
    | nil => intro s h; exact h
    | cons op l ih => intro s h; exact ih _ (specStep_inv q S s op h)
  exact this ops _ specInv_init

/-- **garbage_of_dead.** "Garbage prefix" only has to be checked on the instances and the query objects: if every
instance the prefix created is dead and no query object of it is left, nothing else of it is left either. -/
theorem garbage_of_dead (q : Quirks) (S : Schema) (p : List Op) (hl : (specRun q S p).h.live = [])
    (hq : (specRun q S p).h.qvars = []) : Garbage (specRun q S p) := by
  have hI := specRun_inv q S p
  have hdead : ∀ o, (specRun q S p).h.isLive o = false := by intro o; simp [Heap.isLive, hl]
  refine ⟨hl, ?_, ?_, hq, ?_, ?_⟩
  · rw [List.eq_nil_iff_forall_not_mem]; intro o ho; have := hI.held o ho; rw [hdead] at this; cases this
  · rw [List.eq_nil_iff_forall_not_mem]; intro e he; have := hI.rel.1 e he; rw [hdead] at this; cases this
  · rw [List.eq_nil_iff_forall_not_mem]; intro r hr; have := hI.reg r hr; rw [hdead] at this; cases this
  · rw [List.eq_nil_iff_forall_not_mem]; intro e he; have := (hI.rel.2 e he).1; rw [hdead] at this; cases this

/-- **C14_fresh_equiv_dead.** `C14_fresh_equiv` with the garbage condition in its plain form: every instance created
by the prefix is dead at its end and no query object of the prefix is left. -/
theorem C14_fresh_equiv_dead {σ' : Type} (q : Quirks) (hq1 : q.staleRelIndex = false)
    (hq2 : q.deadEndpointRaises = false) (S : Schema) (a : Alloc σ) (ha : a.Valid) (a' : Alloc σ') (ha' : a'.Valid)
    (p s : List Op) (hl : (specRun q S p).h.live = []) (hq : (specRun q S p).h.qvars = [])
    (hfresh : ∀ o c pid, Op.new o c pid ∈ s → o ∉ (specRun q S p).h.used)
    (hfreshR : ∀ o c pid t, Op.newrole o c pid t ∈ s → o ∉ (specRun q S p).h.used) :
    (run q S a (p ++ s)).relObs = (run q S a' s).relObs :=
  C14_fresh_equiv q hq1 hq2 S a ha a' ha' p s (garbage_of_dead q S p hl hq) hfresh hfreshR

/-! ### witnesses (tests on concrete inputs, on the schema of the harness) and non-vacuity -/

open KrroodVerif.Drive.SG in
/-- **C14_cex_recycled** (test = finding F-C14-1): an `Emp` and an `Org` are created, `emp.works_for = org`, both are
dropped, collected and swept; a new `Org` and a new `Emp` get the recycled node indices 1 and 0 (LIFO), and
`emp.works_for = org` records NO relation and infers nothing — the stale pair `(0, 1)` of `_relation_index` answers
"already known". With the purge in `remove_node` the three relations of a fresh graph appear. -/
theorem C14_cex_recycled :
    let p := [Op.new 0 2 0, .new 1 1 1, .set 0 0 1, .drop 0, .drop 1, .sweep]
    let s := [Op.new 2 1 0, .new 3 2 1, .set 0 3 2]
    (run Quirks.original schema lifo (p ++ s)).staleHit = true ∧
    (run Quirks.original schema lifo (p ++ s)).relObs = some ([], [(3, 0, 2)]) ∧
    (run Quirks.original schema lifo s).relObs =
      some ([(0, 3, 2), (1, 3, 2), (2, 2, 3)], [(3, 0, 2), (3, 1, 2), (2, 2, 3)]) ∧
    (run Quirks.asIs schema lifo (p ++ s)).relObs = (run Quirks.original schema lifo s).relObs ∧
    (specRun Quirks.original schema (p ++ s)).relObs = (run Quirks.original schema lifo s).relObs := by
  dsimp only
  refine ⟨by decide, by decide, by decide, by decide, by decide⟩

open KrroodVerif.Drive.SG in
/-- **C14_cex_dead_source** (test = finding F-C14-2, repaired): `a.sub_of.append(b)`, `a` is dropped and collected but
not yet swept, then `b.sub_of.append(c)` raised in the tree before the repair (`Quirks.original`, and the quirk alone on
top of the code as it is: the transitive inference reaches the dead `a`); after a sweep, or with dead ends skipped — the
code as it is now, `Quirks.asIs` — the assertion records `b → c` as on a fresh graph. -/
theorem C14_cex_dead_source :
    let ops := [Op.new 0 1 0, .new 1 1 1, .new 2 1 2, .set 3 0 1, .drop 0, .set 3 1 2]
    let swept := [Op.new 0 1 0, .new 1 1 1, .new 2 1 2, .set 3 0 1, .drop 0, .sweep, .set 3 1 2]
    (run Quirks.original schema lifo ops).deadHit = true ∧ (run Quirks.original schema lifo ops).relObs = none ∧
    (run { Quirks.asIs with deadEndpointRaises := true } schema lifo ops).relObs = none ∧
    (run Quirks.asIs schema lifo ops).relObs = some ([(3, 1, 2)], [(1, 3, 2)]) ∧
    (run Quirks.original schema lifo swept).relObs = some ([(3, 1, 2)], [(1, 3, 2)]) ∧
    (run Quirks.none schema lifo ops).relObs = some ([(3, 1, 2)], [(1, 3, 2)]) ∧
    (specRun Quirks.original schema ops).relObs = some ([(3, 1, 2)], [(1, 3, 2)]) := by
  dsimp only
  refine ⟨by decide, by decide, by decide, by decide, by decide, by decide, by decide⟩

open KrroodVerif.Drive.SG in
/-- non-vacuity of `C14_fresh_equiv`: a prefix with relations, inferences and recycling is garbage; the suffix uses
fresh labels and asserts relations with inferences -/
example :
    let p := [Op.new 0 2 0, .new 1 1 1, .set 0 0 1, .new 2 1 2, .set 3 1 2, .drop 0, .drop 1, .drop 2, .sweep]
    let s := [Op.new 10 1 0, .new 11 2 1, .set 0 11 10, .new 12 1 2, .set 3 10 12]
    Garbage (specRun Quirks.none schema p) ∧
    (∀ o c pid, Op.new o c pid ∈ s → o ∉ (specRun Quirks.none schema p).h.used) ∧
    (run Quirks.none schema lifo (p ++ s)).relObs =
      some ([(0, 11, 10), (1, 11, 10), (2, 10, 11), (3, 10, 12)], [(11, 0, 10), (11, 1, 10), (10, 2, 11), (10, 3, 12)]) := by
  refine ⟨by unfold Garbage; decide, ?_, by decide⟩
  intro o c pid hm
  simp only [List.mem_cons, Op.new.injEq, List.mem_nil_iff, or_false, reduceCtorEq, false_or] at hm
  rcases hm with ⟨rfl, _⟩ | ⟨rfl, _⟩ | ⟨rfl, _⟩ <;> decide

open KrroodVerif.Drive.SG in
/-- non-vacuity of `C14_partial_precise`: a history with garbage and a sweep in which the LIFO allocator recycles
indices, yet no stale entry is hit -/
example :
    let ops := [Op.new 0 2 0, .new 1 1 1, .set 0 0 1, .drop 0, .drop 1, .sweep, .new 2 2 0, .new 3 1 1, .set 0 2 3]
    (run Quirks.original schema lifo ops).staleHit = false ∧ (run Quirks.original schema lifo ops).deadHit = false ∧
    (run Quirks.original schema lifo ops).g.reused = true ∧ (run Quirks.original schema lifo ops).g.relIdx.length = 6 := by
  decide

open KrroodVerif.Drive.SG in
/-- **C14_role_witness** (test on the schema of the harness; non-vacuity of the role-taker part of the theorems above —
they quantify over every schema and every history, role classes and `Op.newrole` included): an Emp 0, an Org 1,
`Chair(2, emp=0)`; `clear()` makes the registry forget all three; `chair.head_of = org` wraps the chair and the org, and
the inference through the role taker wraps the Emp IN THE MIDDLE of the inference (third node) and infers, in the order
of the code: works_for and member_of on the role taker (super-properties of HeadOf on the role-taker type), members on
the org for the Emp (inverse of member_of), then members on the org for the chair (inverse of head_of), whose own inverse
— looked up on the chair's role taker — is the member_of relation already known. Model and specification agree. -/
theorem C14_role_witness :
    let ops : List Op := [.new 0 2 0, .new 1 1 1, .newrole 2 8 2 0, .clear, .set 6 2 1]
    (run Quirks.asIs schema lifo ops).g.nodes.map (·.obj) = [2, 1, 0] ∧
    (run Quirks.asIs schema lifo ops).abs.edges.map (fun e => (e.fld, e.src.obj, e.tgt.obj, e.inferred)) =
      [(6, 2, 1, false), (0, 0, 1, true), (1, 0, 1, true), (2, 1, 0, true), (2, 1, 2, true)] ∧
    (run Quirks.asIs schema lifo ops).h.fields.map (fun e => (e.owner, e.fld, e.val)) =
      [(2, 9, 0), (2, 6, 1), (0, 0, 1), (0, 1, 1), (1, 2, 0), (1, 2, 2)] ∧
    (run Quirks.asIs schema lifo ops).relObs = (specRun Quirks.asIs schema ops).relObs ∧
    (specRun Quirks.asIs schema ops).reg.map (·.obj) = [2, 1, 0] := by
  decide

open KrroodVerif.Drive.SG in
/-- the hypotheses of `C14_fresh_equiv_dead` are met by a prefix and a suffix WITH roles (test): the prefix creates an
Emp, an Org and a Chair, asserts `head_of`, and drops everything; the suffix does the same on fresh labels -/
example :
    let p : List Op := [.new 0 2 0, .new 1 1 1, .newrole 2 8 2 0, .set 6 2 1, .drop 2, .drop 1, .drop 0, .sweep]
    let s : List Op := [.new 10 2 0, .new 11 1 1, .newrole 12 8 2 10, .set 6 12 11]
    (specRun Quirks.asIs schema p).h.live = [] ∧ (specRun Quirks.asIs schema p).h.qvars = [] ∧
    (run Quirks.asIs schema lifo (p ++ s)).relObs = (run Quirks.asIs schema lifo s).relObs ∧
    ((run Quirks.asIs schema lifo s).relObs.map (·.1.length)) = some 5 := by
  decide

end KrroodVerif.SG
