import KrroodVerif.Lemmas.EqlF1
import KrroodVerif.Props.C02
/-!
# C01 — EQL answers are exactly the satisfying assignments

Property theorems only (lemmas: `Lemmas/EqlCover.lean`, `Lemmas/EqlCount.lean`; the central invariant is
`cover` = DESIGN's `C01_cover`, restated below as `C01_cover`).

Proved (unbounded): `C01_cover` on the cover fragment `Expr.Fc`; `C01_sound_complete_partial` on the fragment
`SExpr.F2` with plain selected variables (same hypotheses as `C02_multiplicity`); `C01_sound_complete_F1_partial`
on the larger fragment `SExpr.F1` (arbitrarily nested `not_`; selected attribute/index chains; selected variables
that do not occur in the condition). Everything outside (Union, quantifiers, `flatten`,
one variable feeding two selected expressions, empty domains) is left to the executable model + search; each
recorded finding has its witness below as a `decide`d test.
-/
namespace KrroodVerif.Eql

/-- **C01_cover.** For `e` in the cover fragment (comparisons, membership, `HasType`, attribute/index chains
as conditions, `and`, `elseIf`, `not`; no `union`, quantifier or `flatten`), every total assignment `τ` whose
values for the variables of `e` occur exactly once in their domains and which is compatible with `env` lies in
**exactly one** result cell of `eval w e env`, and that cell's truth flag is the first-order truth value of `e`
under `τ`: the result cells form a decision-tree partition of the assignment space with the truth of `e` constant
on each cell. Conditional on both sides returning `.ok`. -/
theorem C01_cover (w : World) (τ : Asg) (e : Expr)
    (hF : e.Fc = true) (hτ : ∀ v ∈ e.vars, ∃ x, τ.lookup v = some x ∧ (w.dom v).count x = 1)
    (hlit : LitNodup e) (env : Env) (rs : List (Env × Bool)) (b : Bool)
    (hfresh : ∀ id, Key.lit id ∈ e.nodes → env.lookup (.lit id) = none)
    (hag : agreesB τ env = true)
    (he : eval w e env = .ok rs) (hs : satE w e τ = .ok b) :
    (rs.filter fun p => agreesB τ p.1).map (·.2) = [b] :=
  cover w τ e hF hτ hlit env rs b hfresh hag he hs

/- Intended statement (DESIGN §5, fragment F1): the same set equality for every tree-shaped query over
   and_/or_/not_ with arbitrary `or_` (no Union under an odd number of `not_`), selections that may contain
   attribute expressions of bound variables and variables that do not occur in the condition. Proved here:
   the sub-fragment F2 (`or_` only between conditions over the same variables, `not_` on atoms) with plain
   selected variables that occur in the condition. -/
/-- **C01_sound_complete_partial.** On `F2` (see `Props/C02.lean` for the side conditions) the rows evaluation
returns are exactly the rows of the satisfying assignments: soundness (→) and completeness (←). -/
theorem C01_sound_complete_partial (w : World) (q : SQuery) (c : SExpr)
    (hc : q.cond = some c) (hF : c.F2 = true) (hsel : selOK q.sel c = true)
    (hnd : ∀ v, (w.dom v).Nodup) (hlit : LitNodup (build c))
    {rows rows' : List (List Val)}
    (h1 : evalQuery w q.toQuery = .ok rows) (h2 : solutions w q = .ok rows') :
    ∀ r, r ∈ rows ↔ r ∈ rows' :=
  fun _ => (C02_multiplicity w q c hc hF hsel hnd hlit h1 h2).mem_iff

/-- non-vacuity (test): the 3-object world and `F2` query of `Props/C02.lean` meet every hypothesis; the answer
is non-empty (3 rows) and non-total (9 assignments) -/
example : ∀ r, r ∈ [[Val.obj 0, .obj 0], [.obj 0, .obj 1], [.obj 1, .obj 1]] ↔
    r ∈ [[Val.obj 0, .obj 0], [.obj 0, .obj 1], [.obj 1, .obj 1]] :=
  C01_sound_complete_partial c02nvW c02nvQ c02nvC rfl (by decide) (by decide)
    (domsNodup_of_B (by decide)) (by decide) (by decide) (by decide)

/-- non-vacuity on falsy values (test): the theorem now applies to the witness of the repaired F-C01-3
(`and_(x >= 0, x < 2)` over `[0,1,2,3]`; `0` is falsy) -/
example : ∀ r, r ∈ [[Val.int 0], [.int 1]] ↔ r ∈ [[Val.int 0], [.int 1]] :=
  C01_sound_complete_partial cexFalsyW cexFalsyQ _ rfl (by decide) (by decide)
    (domsNodup_of_B (by decide)) (by decide) (by decide) (by decide)

/-- **C01_sound_complete_F1_partial.** Soundness and completeness as sets of rows on the larger fragment F1:
conditions over `and_`, `or_` between conditions with the same variables and arbitrarily nested `not_`
(`SExpr.F1`); selected expressions are `flatten`-free attribute/index chains over variables (`selF1`) — the
variables may or may not occur in the condition (those that do not range over their whole domain) — and no
variable feeds two selected expressions (`trigMultiSel q = false`: the negation of the trigger of F-C01-2).
Side conditions: duplicate-free and — for the query's variables — non-empty domains (the negation of the
trigger of F-C01-9), distinct literal ids. Conditional on both sides returning `.ok`. (Until fix commit `78cb732`
repaired F-C01-3 the domains also had to be truthy.) -/
theorem C01_sound_complete_F1_partial (w : World) (q : SQuery) (c : SExpr)
    (hc : q.cond = some c) (hF : c.F1 = true) (hsel : selF1 q.sel = true) (hms : trigMultiSel q = false)
    (hnd : ∀ v, (w.dom v).Nodup) (hne : ∀ v ∈ q.vars, w.dom v ≠ [])
    (hlit : LitNodup (build c))
    {rows rows' : List (List Val)}
    (h1 : evalQuery w q.toQuery = .ok rows) (h2 : solutions w q = .ok rows') :
    ∀ r, r ∈ rows ↔ r ∈ rows' := by
  obtain ⟨sel, cond⟩ := q
  simp only at hc; subst hc
  exact sound_complete_F1 w sel c hF hsel (hasDup_false_iff.mp hms) hnd hne hlit h1 h2

/-! non-vacuity (test) for F1: `set_of([x.a, y], not_(and_(x.a > 0, x.a < 2)))` over the 3-object world — a
negated conjunction, a selected attribute, a selected variable that does not occur in the condition; 6 of the 9
assignments satisfy it. -/
def c01nvC : SExpr :=
  .not (.and (.cmp .gt (.attr (.var 0) "a") (.lit 101 (.int 0))) (.cmp .lt (.attr (.var 0) "a") (.lit 102 (.int 2))))
def c01nvQ : SQuery := ⟨[.attr (.var 0) "a", .var 1], some c01nvC⟩

example :
    c01nvQ.cond = some c01nvC ∧ c01nvC.F1 = true ∧ c01nvC.F2 = false ∧ selF1 c01nvQ.sel = true ∧
    trigMultiSel c01nvQ = false ∧ (∀ v, (c02nvW.dom v).Nodup) ∧
    (∀ v ∈ c01nvQ.vars, c02nvW.dom v ≠ []) ∧ LitNodup (build c01nvC) ∧
    evalQuery c02nvW c01nvQ.toQuery = .ok [[.int 0, .obj 0], [.int 0, .obj 1], [.int 0, .obj 2],
      [.int 2, .obj 0], [.int 2, .obj 1], [.int 2, .obj 2]] ∧
    sameAnswers (evalQuery c02nvW c01nvQ.toQuery) (solutions c02nvW c01nvQ) = true ∧
    (assignments c02nvW c01nvQ.vars).length = 9 :=
  ⟨rfl, by decide, by decide, by decide, by decide, domsNodup_of_B (by decide),
    by decide, by decide, by decide, by decide, by decide⟩

/-! ## Counter-examples (tests, by `decide` on the witnesses stored in `findings.d/C01.json`)

Each states the outcome of the model of the engine, the outcome of the specification, and that the two differ
as sets of rows (`sameAnswers … = false`). -/

def cexObjs012 : List Obj := [cexObj false 0 true [] 0, cexObj false 1 true [] 2, cexObj false 2 true [] 4]
def cexObjs12 : List Obj := [cexObj false 1 true [] 2, cexObj false 2 true [] 4]
/-- `x.a` -/
def cexAttrA (v : VarId) : Term := .attr (.var v) "a"

def cex1W : World := { objs := cexObjs012, doms := [(0, [.obj 0, .obj 1, .obj 2]), (1, [.obj 0, .obj 1, .obj 2])] }
def cex1Q : SQuery :=
  ⟨[.var 0, .var 1], some (.not (.or (.cmp .eq (cexAttrA 0) (.lit 101 (.int 0))) (.cmp .eq (cexAttrA 1) (.lit 102 (.int 0)))))⟩

/-- **C01_cex_negUnion** (test, F-C01-1). `not_(or_(x.a == 0, y.a == 0))` over `a ∈ {0,1,2}` also returns the
pairs with `x.a == 0` (unsound rows `(P0,P1)`, `(P0,P2)`), with duplicates. -/
theorem C01_cex_negUnion :
    evalQuery cex1W cex1Q.toQuery = .ok [[.obj 1, .obj 1], [.obj 1, .obj 2], [.obj 2, .obj 1], [.obj 2, .obj 2],
      [.obj 0, .obj 1], [.obj 1, .obj 1], [.obj 2, .obj 1], [.obj 0, .obj 2], [.obj 1, .obj 2], [.obj 2, .obj 2]] ∧
    solutions cex1W cex1Q = .ok [[.obj 1, .obj 1], [.obj 1, .obj 2], [.obj 2, .obj 1], [.obj 2, .obj 2]] ∧
    sameAnswers (evalQuery cex1W cex1Q.toQuery) (solutions cex1W cex1Q) = false := by
  decide

def cex2W : World := { objs := cexObjs012, doms := [(0, [.obj 0, .obj 1, .obj 2])] }
def cex2Q : SQuery := ⟨[.var 0, cexAttrA 0], none⟩

/-- **C01_cex_selectIndependent** (test, F-C01-2). `set_of([x, x.a])` without a condition returns the cross
product of the values of `x` and of `x.a`. -/
theorem C01_cex_selectIndependent :
    evalQuery cex2W cex2Q.toQuery = .ok [[.obj 0, .int 0], [.obj 0, .int 1], [.obj 0, .int 2],
      [.obj 1, .int 0], [.obj 1, .int 1], [.obj 1, .int 2], [.obj 2, .int 0], [.obj 2, .int 1], [.obj 2, .int 2]] ∧
    solutions cex2W cex2Q = .ok [[.obj 0, .int 0], [.obj 1, .int 1], [.obj 2, .int 2]] ∧
    sameAnswers (evalQuery cex2W cex2Q.toQuery) (solutions cex2W cex2Q) = false := by
  decide

/-- **C01_cex_falsyBound** (test; the witness of the REPAIRED finding F-C01-3, = `C02_cex_falsyBound`, name kept).
`and_(x >= 0, x < 2)` over `[0,1,2,3]` used to return `[1]`: the solution `0` was dropped because an already bound
variable with a falsy value was reported false even as an operand of a comparison. Fix commit `78cb732` repaired the
engine (the flag of a bound variable is its truthiness only where the variable itself is a condition); the model
follows, and on the same witness evaluation and specification now agree. -/
theorem C01_cex_falsyBound :
    evalQuery cexFalsyW cexFalsyQ.toQuery = .ok [[.int 0], [.int 1]] ∧
    solutions cexFalsyW cexFalsyQ = .ok [[.int 0], [.int 1]] ∧
    sameAnswers (evalQuery cexFalsyW cexFalsyQ.toQuery) (solutions cexFalsyW cexFalsyQ) = true := by
  decide

/-- **C01_boundVar_flag** (where truthiness still matters, and where it no longer does). A variable already bound to
`x` yields one result: flagged `truthy x` when the variable itself is the condition (`.truth (.var v)`: its parent is a
logical operator or it is the conditions root), flagged TRUE — whatever `x` is — when it is an operand. The first half
is the legitimate use of truthiness that the repair keeps; the second half is the repair of F-C01-3. -/
theorem C01_boundVar_flag (w : World) (v : VarId) (env : Env) (x : Val) (h : env.lookup (.var v) = some x) :
    eval w (.truth (.var v)) env = .ok [(env, truthy x)] ∧
    evalTerm w false (.var v) env = .ok [(env, x, true)] := by
  constructor
  · simp only [eval, evalTerm, evalVarAt, h, boundFlag]; rfl
  · simp only [evalTerm, evalVarAt, h, boundFlag]; rfl

/-- **C01_boundVar_asCondition** (test). `and_(x >= 0, x)` over `[0,1,2,3]`: the second conjunct IS the bound variable,
so its falsy value `0` makes the conjunction false — `[1,2,3]`, which is also the first-order answer (the specification
reads `.truth t` as "the value of `t` is truthy"). -/
theorem C01_boundVar_asCondition :
    evalQuery cexFalsyW ⟨[.var 0], some (.and (.cmp .ge (.var 0) (.lit 101 (.int 0))) (.truth (.var 0)))⟩ =
      .ok [[.int 1], [.int 2], [.int 3]] ∧
    solutions cexFalsyW ⟨[.var 0], some (.and (.cmp .ge (.var 0) (.lit 101 (.int 0))) (.truth (.var 0)))⟩ =
      .ok [[.int 1], [.int 2], [.int 3]] := by
  decide

def cex5W : World :=
  { objs := [cexObj false 1 true [] 2, cexObj false 2 true [] 4, cexObj false 3 true [] 6,
             cexObj true 1 true [] 2, cexObj true 1 true [] 2, cexObj true 3 true [] 6],
    doms := [(0, [.obj 0, .obj 1, .obj 2]), (3, [.obj 3, .obj 4, .obj 5])] }
def cex5Q : SQuery := ⟨[.var 0], some (.exists_ 3 (.cmp .ge (cexAttrA 0) (cexAttrA 3)))⟩

/-- **C01_cex_existsDedup** (test, F-C01-5). `exists(y, x.a >= y.a)` over `x ∈ {1,2,3}`, `y ∈ {1,1′,3}` misses
`x = 2`: its witnesses were already "seen" for `x = 1`. -/
theorem C01_cex_existsDedup :
    evalQuery cex5W cex5Q.toQuery = .ok [[.obj 0], [.obj 2]] ∧
    solutions cex5W cex5Q = .ok [[.obj 0], [.obj 1], [.obj 2]] ∧
    sameAnswers (evalQuery cex5W cex5Q.toQuery) (solutions cex5W cex5Q) = false := by
  decide

def cex6W : World := { objs := [cexObj false 1 true [] 2], doms := [(0, [.obj 0]), (3, [])] }
def cex6Q : SQuery := ⟨[.var 0], some (.forAll 3 (.cmp .ge (cexAttrA 0) (cexAttrA 3)))⟩

/-- **C01_cex_forAllEmpty** (test, F-C01-6). `for_all(y, x.a >= y.a)` with an empty domain for `y` raises
`TypeError` instead of being vacuously true. -/
theorem C01_cex_forAllEmpty :
    evalQuery cex6W cex6Q.toQuery = .error .typeError ∧
    solutions cex6W cex6Q = .ok [[.obj 0]] ∧
    sameAnswers (evalQuery cex6W cex6Q.toQuery) (solutions cex6W cex6Q) = false := by
  decide

def cex7W : World := { objs := cexObjs12, doms := [(0, [.obj 0, .obj 1]), (3, [.obj 0, .obj 1])] }
def cex7Q : SQuery :=
  ⟨[.var 0], some (.exists_ 3 (.and (.cmp .gt (cexAttrA 0) (.lit 101 (.int 1))) (.cmp .eq (cexAttrA 3) (.lit 102 (.int 1)))))⟩

/-- **C01_cex_existsKeyError** (test, F-C01-7). `exists(y, and_(x.a > 1, y.a == 1))` raises `KeyError`: the
conjunction passes a false, un-extended result that does not bind `y`. -/
theorem C01_cex_existsKeyError :
    evalQuery cex7W cex7Q.toQuery = .error .keyError ∧
    solutions cex7W cex7Q = .ok [[.obj 1]] ∧
    sameAnswers (evalQuery cex7W cex7Q.toQuery) (solutions cex7W cex7Q) = false := by
  decide

def cex8Q : SQuery :=
  ⟨[.var 0], some (.or (.exists_ 3 (.cmp .gt (cexAttrA 0) (cexAttrA 3))) (.exists_ 3 (.cmp .lt (cexAttrA 0) (cexAttrA 3))))⟩

/-- **C01_cex_orOfExists** (test, F-C01-8). `or_(exists(y, x.a > y.a), exists(y, x.a < y.a))` over `{1,2}`
returns only `x = 2`: a quantifier never yields a false result, so the else-if never reaches its right side. -/
theorem C01_cex_orOfExists :
    evalQuery cex7W cex8Q.toQuery = .ok [[.obj 1]] ∧
    solutions cex7W cex8Q = .ok [[.obj 0], [.obj 1]] ∧
    sameAnswers (evalQuery cex7W cex8Q.toQuery) (solutions cex7W cex8Q) = false := by
  decide

def cex9W : World := { objs := [cexObj false 1 true [] 2], doms := [(0, [.obj 0]), (1, [])] }
def cex9Q : SQuery :=
  ⟨[.var 0], some (.or (.cmp .gt (cexAttrA 1) (.lit 101 (.int 0))) (.cmp .ge (cexAttrA 0) (.lit 102 (.int 1))))⟩

/-- **C01_cex_emptyDomain** (test, F-C01-9). `or_(y.a > 0, x.a >= 1)` with an empty domain for `y` returns `x`
although no assignment of the query's variables exists. -/
theorem C01_cex_emptyDomain :
    evalQuery cex9W cex9Q.toQuery = .ok [[.obj 0]] ∧
    solutions cex9W cex9Q = .ok [] ∧
    sameAnswers (evalQuery cex9W cex9Q.toQuery) (solutions cex9W cex9Q) = false := by
  decide

def cex10W : World :=
  { objs := [cexObj false 1 false [0, 1] 2, cexObj false 0 false [2] 0, cexObj false 1 true [0] 2,
             cexObj false 0 true [2] 0],
    doms := [(0, [.obj 0, .obj 1, .obj 2, .obj 3])] }
def cex10Q : SQuery :=
  ⟨[.var 0], some (.not (.contains (.lit 101 (.list [0])) (.flatten (.attr (.var 0) "items"))))⟩

/-- **C01_cex_flattenNot** (test, F-C01-10). `not_(contains([0], flatten(x.items)))` also returns the object with
items `[0, 1]` (some element is not in `[0]`). -/
theorem C01_cex_flattenNot :
    evalQuery cex10W cex10Q.toQuery = .ok [[.obj 0], [.obj 1], [.obj 3]] ∧
    solutions cex10W cex10Q = .ok [[.obj 1], [.obj 3]] ∧
    sameAnswers (evalQuery cex10W cex10Q.toQuery) (solutions cex10W cex10Q) = false := by
  decide

end KrroodVerif.Eql
