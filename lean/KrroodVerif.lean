import KrroodVerif.Sexp
import KrroodVerif.Model.Quantifier
import KrroodVerif.Props.C09
