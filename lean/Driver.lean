import KrroodVerif.Sexp
import KrroodVerif.Drive.C01
import KrroodVerif.Drive.C02
import KrroodVerif.Drive.C03
import KrroodVerif.Drive.C04
import KrroodVerif.Drive.C05
import KrroodVerif.Drive.C06
import KrroodVerif.Drive.C07
import KrroodVerif.Drive.C08
import KrroodVerif.Drive.C09
import KrroodVerif.Drive.C10
import KrroodVerif.Drive.C11
import KrroodVerif.Drive.C12
import KrroodVerif.Drive.C13
import KrroodVerif.Drive.C14
import KrroodVerif.Drive.C15
import KrroodVerif.Drive.C16
import KrroodVerif.Drive.C17
import KrroodVerif.Drive.C18
import KrroodVerif.Drive.C19
import KrroodVerif.Drive.C20
/-!
Line-protocol driver. One case per input line: `Cxx <sexp>`. One output line per input line:
`model=<m>\tspec=<s>\ttrig=<comma separated finding ids>` (further `key=value` fields allowed).
The executable definitions called here are the very definitions the theorems in `Props/` are about.
-/
open KrroodVerif

def dispatch (pid : String) (s : Sexp) : String :=
  match pid with
  | "C01" => Drive.C01.run s | "C02" => Drive.C02.run s | "C03" => Drive.C03.run s
  | "C04" => Drive.C04.run s | "C05" => Drive.C05.run s | "C06" => Drive.C06.run s
  | "C07" => Drive.C07.run s | "C08" => Drive.C08.run s | "C09" => Drive.C09.run s
  | "C10" => Drive.C10.run s | "C11" => Drive.C11.run s | "C12" => Drive.C12.run s
  | "C13" => Drive.C13.run s | "C14" => Drive.C14.run s | "C15" => Drive.C15.run s
  | "C16" => Drive.C16.run s | "C17" => Drive.C17.run s | "C18" => Drive.C18.run s
  | "C19" => Drive.C19.run s | "C20" => Drive.C20.run s
  | _ => "error=unknown-property"

def handle (line : String) : String :=
  let line := line.trimAscii.toString
  match line.splitOn " " with
  | pid :: rest =>
    match Sexp.parse (" ".intercalate rest) with
    | some s => dispatch pid s
    | none => "error=parse"
  | [] => "error=empty"

partial def loop (h : IO.FS.Stream) (out : IO.FS.Stream) : IO Unit := do
  let line ← h.getLine
  if line.isEmpty then return ()
  out.putStrLn (handle line)
  loop h out

def main : IO Unit := do
  let out ← IO.getStdout
  loop (← IO.getStdin) out
  out.flush
